#!/bin/bash
# Runs the repository's pinned baseline with the verification guard OFF.
# (no --cfg litep2p_verif; the hooks compile to nothing)
set -o pipefail
cd /repo || exit 2
export CARGO_NET_OFFLINE=true
unset RUSTFLAGS
if command -v cargo-nextest >/dev/null 2>&1 && [ -f /w/lib/nextest.toml ]; then
  cargo nextest run --workspace --no-fail-fast --tool-config-file pb:/w/lib/nextest.toml --profile pb --test-threads 8 --offline
else
  cargo test --workspace --no-fail-fast --offline
fi
