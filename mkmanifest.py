#!/usr/bin/env python3
"""Regenerates /verif/MANIFEST.json from the table below (kept in one place so that the manifest
stays valid and in step with what vsim implements)."""
import json, subprocess

HOOK_COMMITS = subprocess.run(
    ["git", "-C", "/repo", "log", "--format=%h %s", "--grep=^verif hook"], capture_output=True, text=True
).stdout.strip().splitlines()

TRUST = ("Trusted base: the simulator (vsim: scheduler, SimNet, libc clock/getrandom interposition), tokio's paused clock, "
         "the oracle code of the property; pre-emption granularity is one task poll; a clean batch is evidence, not proof.")

CHECKS = {
    "C13": dict(
        engine="nodesim",
        technique="deterministic simulation: seeded schedules + fault injection over 2-4 real litep2p nodes on an in-memory network; request ledger oracle",
        text="Seeded search over schedules, fault plans and request workloads with complete litep2p nodes (real TransportManager, TCP transport, Noise, yamux, request-response protocol) on a simulated network and clock. Oracle: ledger keyed by request id (at most one terminal event, exactly one by the horizon unless cancelled, response bytes equal what the responder supplied for that request, each request delivered to the responder at most once and unaltered, inbound bound respected, no unknown ids, no panic). Exploration is the right level: the property quantifies over interleavings and fault timings of a multi-task system which cannot be enumerated.",
        ref="DESIGN.md §5 C13",
    ),
}

NOT_BUILT = {
}

NOT_APPLICABLE = {
    "C18": "pure function of a byte string / key (peer-id derivation and parsing): no schedule, clock, fault or interleaving to simulate; a differential-fuzzing target, not a simulation target",
    "C19": "totality of pure decoders over all byte strings: decided by input generation, not by simulation; nothing time-, order- or fault-dependent in the decoders themselves",
    "C20": "CID recomputation and response batching are pure functions of block contents and sizes; nothing time-, order- or fault-dependent",
}

def main():
    props = [json.loads(l) for l in open("/verif/properties.jsonl")]
    ids = [p["id"] for p in props]
    checks = []
    for pid in ids:
        if pid in CHECKS:
            c = CHECKS[pid]
            checks.append({
                "property_id": pid,
                "quick_cmd": f"./check {pid} quick",
                "thorough_cmd": f"./check {pid} thorough",
                "evidence_file": f"/verif/evidence/{pid}.json",
                "replay_cmd_template": "./check replay {path}",
                "engine": c["engine"],
                "level_claimed": {"category": c.get("category", "exploration"), "text": c["text"], "design_ref": c["ref"]},
                "level_note": c.get("note", TRUST),
                "technique": c["technique"],
            })
    na = []
    for pid in ids:
        if pid in CHECKS:
            continue
        if pid in NOT_APPLICABLE:
            na.append({"property_id": pid, "reason": NOT_APPLICABLE[pid]})
        else:
            na.append({"property_id": pid, "reason": NOT_BUILT.get(pid, "not claimed yet: the simulation check for this property is planned in DESIGN.md but not built/registered at this commit")})
    engines = {}
    for pid, c in CHECKS.items():
        engines.setdefault(c["engine"], []).append(pid)
    m = {
        "version": 1,
        "setup_cmd": "./check build",
        "hooks": {
            "guard": "--cfg litep2p_verif",
            "enable": "RUSTFLAGS='--cfg litep2p_verif --cfg tokio_unstable' via /verif/sim/.cargo/config.toml; litep2p is a path dependency on /repo",
            "baseline_off_cmd": "/verif/baseline_off.sh",
            "source_commits": HOOK_COMMITS,
            "add_only": True,
        },
        "engines": [
            {"name": n, "path": "/verif/sim", "serves_properties": sorted(v), "kind_free_text": "deterministic simulation with fault injection (vsim)"} for n, v in sorted(engines.items())
        ],
        "checks": checks,
        "not_applicable": na,
        "notes": "All checks are `vsim` (Rust, /verif/sim) runs: one seed = one exactly repeatable execution; VERIF_SEED selects the first seed of the batch. Exit 2 = harness error (build failure, nondeterminism, replay mismatch). Known findings: /verif/KNOWN_FINDINGS.jsonl.",
    }
    json.dump(m, open("/verif/MANIFEST.json", "w"), indent=1)
    print("checks:", [c["property_id"] for c in checks])

main()
