#!/usr/bin/env python3
"""Regenerates /verif/MANIFEST.json from the table below (kept in one place so that the manifest
stays valid and in step with what vsim implements)."""
import json, subprocess

HOOK_COMMITS = subprocess.run(
    ["git", "-C", "/repo", "log", "--format=%h %s", "--grep=^verif hook"], capture_output=True, text=True
).stdout.strip().splitlines()

TRUST = ("Trusted base: the simulator (vsim: scheduler, SimNet, libc clock/getrandom interposition), tokio's paused clock, "
         "the oracle code of the property; pre-emption granularity is one task poll; a clean batch is evidence, not proof.")

WS_FLAVOUR = " One run in five uses the WebSocket transport (hook H6) for every connection of the run, so the same oracle judges litep2p's second connection implementation."

CHECKS = {
    "C13": dict(
        engine="nodesim",
        technique="deterministic simulation: seeded schedules + fault injection over 2-4 real litep2p nodes on an in-memory network; request ledger oracle",
        text="Seeded search over schedules, fault plans and request workloads with complete litep2p nodes (real TransportManager, TCP transport, Noise, yamux, request-response protocol) on a simulated network and clock. Oracle: ledger keyed by request id (at most one terminal event, exactly one by the horizon unless cancelled, response bytes equal what the responder supplied for that request, each request delivered to the responder at most once and unaltered, inbound bound respected, no unknown ids, no panic). Exploration is the right level: the property quantifies over interleavings and fault timings of a multi-task system which cannot be enumerated. Fault kinds: connection reset / half-close at an instant or at a byte offset, single-bit corruption in flight, partition (stalled delivery) and heal, refused / black-holed / slow connects, node kill (reset or silent vanish), crash + restart with the same identity and no memory, process stall (no task of a node is polled for 50 ms-40 s); a second pass runs the same cases against litep2p compiled with debug assertions (its debug_assert!-guarded states become panics = violations). In a third of the runs one extra peer registers the protocol name as a raw user protocol and misbehaves on the wire after a request arrived (silent, close, oversize / truncated / doubled / zero-length / never-terminated-varint response); its responses are not compared, only bounded by the configured maximum." + WS_FLAVOUR,
        ref="DESIGN.md §5 C13",
    ),
}


CONN_TEXT = ("Seeded search over schedules, fault plans and application/protocol workloads with 2-4 complete litep2p nodes (real TransportManager, peer state machine, TCP transport, Noise, yamux, ProtocolSet, TransportService) carrying two probe user protocols each, on a simulated network and clock; every observable event goes into one totally ordered history that the oracle examines at the horizon, after a fault-free final phase which re-dials every disconnected pair.  Fault kinds: connection reset / half-close at an instant or at a byte offset, single-bit corruption in flight, partition (stalled delivery) and heal, refused / black-holed / slow connects, node kill (reset or silent vanish), crash + restart with the same identity and no memory, process stall (no task of a node is polled for 50 ms-40 s); a second pass runs the same cases against litep2p compiled with debug assertions (its debug_assert!-guarded states become panics = violations). In a third of the runs some nodes also run litep2p's WebSocket transport on the simulated network (hook H6): peers are then known by a TCP and a WebSocket address, a dial by peer id opens on both transports at once, address dials use either, and nodes without the transport are offered /ws addresses to refuse. ")

CHECKS.update({
    "C05": dict(engine="nodesim", technique="deterministic simulation: seeded schedules + fault injection over whole litep2p nodes; dial-outcome ledger oracle + final re-dial phase",
        text=CONN_TEXT + "C05 oracle: every accepted dial (by peer id, by well-formed or adversarial address) is followed by a connection with that peer or a failure naming a dialed address, never silence; dial outcomes never outnumber accepted dial calls (no duplicate/both); failures only name addresses that were dialed; malformed addresses are refused or fail, never panic or wedge; in the final phase every disconnected pair can be dialed again and the dial is attempted.", ref="DESIGN.md §5 C05"),
    "C06": dict(engine="nodesim", technique="deterministic simulation: seeded schedules + fault injection over whole litep2p nodes; connection-count model against SimNet ground truth",
        text=CONN_TEXT + "C06 oracle: application-level ConnectionEstablished events are mapped to the simulated network connections they refer to; at every such event the number of accepted-and-still-alive inbound/outbound connections is within the configured limits and at most two per peer; in the final phase a node with free capacity accepts a new connection (capacity was released).", ref="DESIGN.md §5 C06"),
    "C07": dict(engine="nodesim", technique="deterministic simulation: seeded schedules + fault injection (resets, half-close, partitions, kills, protocol exits) over whole litep2p nodes; close-event agreement oracle",
        text=CONN_TEXT + "C07 oracle: ConnectionClosed is never reported before a matching ConnectionEstablished; once every network connection between two live nodes has ended, the application and every still-running protocol have been told (agreement at quiescence); a peer whose connections have all ended is not reported AlreadyConnected and can be re-dialed; after a protocol shut down, remaining protocols are still told about new connections and re-dials on a healthy network succeed.", ref="DESIGN.md §5 C07"),
    "C08": dict(engine="nodesim", technique="deterministic simulation: seeded schedules + fault injection over whole litep2p nodes; per-protocol event-grammar oracle",
        text=CONN_TEXT + "C08 oracle per protocol and peer: established/closed strictly alternate starting with established (also with two overlapping connections from simultaneous dials); substream events only while connected; open_substream returns Ok only while connected; outbound substream ids are never reused across the protocols of a node; every accepted open is answered at most once with the same id, and exactly once unless a connection to that peer ended, the connection was force-closed or the protocol exited.", ref="DESIGN.md §5 C08"),
})

NOTIF_TEXT = ("Seeded search over schedules, fault plans and user workloads with 2-3 complete litep2p nodes running a notification protocol (real NotificationProtocol, HandshakeService, per-stream Connection tasks, NotificationHandle/Sink, TransportService, TCP transport, Noise, yamux) on a simulated network and clock; every user command and every user-visible event goes into one totally ordered history examined at the horizon; a fault-free final phase resets the users and opens a canary stream between every pair.  Fault kinds: connection reset / half-close at an instant or at a byte offset, single-bit corruption in flight, partition (stalled delivery) and heal, refused / black-holed / slow connects, node kill (reset or silent vanish), crash + restart with the same identity and no memory, process stall (no task of a node is polled for 50 ms-40 s); a second pass runs the same cases against litep2p compiled with debug assertions (its debug_assert!-guarded states become panics = violations).")
CHECKS.update({
    "C11": dict(engine="nodesim", technique="deterministic simulation: seeded schedules + fault injection over whole litep2p nodes; per-peer event-grammar and response oracle, canary phase",
        text=NOTIF_TEXT + "C11 oracle per (node, peer): opened/closed strictly alternate starting with opened; notifications only while open; no open-failure while open; an inbound stream opens only after the user accepted a validation, an outbound one only after a request or acceptance; no unsolicited open-failure; an open request issued while nothing is open, pending, under validation or being negotiated by the remote gets an answer; an open stream is reported closed once every connection to the peer ended; after the reset every pair can still open a stream (the protocol neither panicked, poisoned a peer nor stopped serving)." + WS_FLAVOUR, ref="DESIGN.md §5 C11"),
    "C12": dict(engine="nodesim", technique="deterministic simulation: seeded schedules + fault injection over whole litep2p nodes; per-(sender, period, mode) sequence oracle",
        text=NOTIF_TEXT + "C12 oracle: payloads carry (sender, sender's open period, mode, sequence number, deterministic padding); per (sender, mode) the receiver must see, for each period, the gap-free in-order prefix 0,1,2.. exactly once, periods in order; every delivered notification is byte-identical to one that was sent and not larger than the maximum; bursts exceed the sync/async channel sizes, readers stall, streams close and reopen mid-burst; an asynchronous send that stays stuck for 40 s while the stream is open and the receiver reads is a violation." + WS_FLAVOUR, ref="DESIGN.md §5 C12"),
})

CHECKS.update({
    "C09": dict(engine="nodesim", technique="deterministic simulation on one virtual clock (std Instant + tokio timers): seeded schedules and activity scripts timed around the keep-alive expiry; exact expected-close oracle",
        text="Seeded search over schedules and activity scripts with two complete litep2p nodes (real TransportService/KeepAliveTracker, ConnectionHandle/Permit, TcpConnection, ProtocolSet, optional ping and identify) on a simulated network and a single virtual clock that drives both std::time::Instant and tokio timers. Only node 1 has the keep-alive timeout T under test, so the expected close instant is computed exactly from the recorded history: E = max over protocols of (last substream request/receipt or connection notification + T) and the release of the last keep-alive substream or pending open. Oracle: the connection closes no earlier than E - 3 ms, no later than E + 150 ms, never while a keep-alive substream or pending open is held; ping/identify traffic does not prolong it; one or two overlapping connections." + WS_FLAVOUR + " A quarter of the runs use the built-in protocols mode: the connection is kept busy by the real notification protocol (an open stream, opened and closed by either side) and the real request-response protocol (the responder withholds its answer), timed around the expiry; there the instants of activity are bracketed between a command and the outcome seen by the user, and the oracle is two-sided with that bracket: not closed while a substream is certainly held, not closed before the last command that led to activity + timeout, closed by the last outcome seen + timeout + 400 ms.", ref="DESIGN.md §5 C09"),
})

CHECKS.update({
    "C16": dict(engine="nodesim", technique="deterministic simulation: seeded schedules + fault injection over 3-6 whole litep2p nodes running Kademlia, with ghost peers; query ledger oracle",
        text="Seeded search over schedules, fault plans and user operations with 3-6 complete litep2p nodes running the real Kademlia protocol (event loop, QueryEngine, routing table, store, executor) over the real transport stack on a simulated network and clock, bootstrapped into a line, star or clique, plus ghost peers whose address refuses, black-holes, cannot be dialed by any enabled transport, or is missing. Oracle: ledger keyed by query id - exactly one terminal event per issued query by the horizon, of the kind matching the operation; partial results only before it and only for get_record; no unknown ids; PutRecordSuccess/AddProviderSuccess only if enough distinct nodes really received the record/provider (exact required count for put_record_to_peers, at least one for the closest-peers variants), asserted in runs without connection-killing faults." + WS_FLAVOUR, ref="DESIGN.md §5 C16"),
})

CHECKS.update({
    "C01": dict(engine="bytepipe", category="fault_enumeration", technique="deterministic simulation of the handshake with an active man in the middle and a rogue peer: systematic fault enumeration over every handshake byte + seeded schedules/fragmentation; whole-node impostor runs over TCP and WebSocket",
        text="The real noise::handshake runs on both ends of a simulated carrier under the seeded scheduler. Fault enumeration: every byte offset of both handshake directions x {bit flips, overwrite, truncation} is injected by a man in the middle; a rogue peer written directly against snow completes a valid Noise XX session with every forged identity payload of a catalogue (missing key/signature, signature by another identity, signature bound to another static key, missing domain prefix, wrong lengths, unknown key type, ...) in both roles; seeded runs add key pairs, fragmentation down to single bytes, short writes, Pending and schedules. Oracle: a secured connection for peer P is reported only if nothing was altered in flight and the payload is a valid proof for P over this session's static key; every altered or forged case ends in an error within the time-out, never a hang or panic. The dialed-peer comparison is exercised end-to-end by C05's wrong_peer address shape." + " A third of the impostor runs use the WebSocket transport (its own connection negotiation and dialed-peer comparison).", ref="DESIGN.md §5 C01"),
    "C02": dict(engine="bytepipe", technique="deterministic simulation: real Noise sockets over a simulated carrier with seeded fragmentation/back-pressure and a frame-level attacker; byte-FIFO reference model",
        text="Two endpoints perform the real Noise handshake over a simulated carrier and then exchange byte streams in both directions through the real NoiseSocket (split into reader and writer tasks under the seeded scheduler). Write sizes cover 1 byte to several maximum frames incl. 65519/65520/65521, reader buffers 1 byte to 400 kB, read-ahead 1-5 and write-buffer 1-3, carrier chunking down to one byte, short writes, Pending and a bounded window. Reference model: a byte FIFO (position-indexed pseudo-random stream). Honest runs: bytes read = bytes written, no error, no stall. Attacker runs (one ciphertext frame flipped, truncated, replayed, dropped or swapped): no byte that differs from the honest stream is ever delivered and nothing from the attacked frame on is delivered.", ref="DESIGN.md §5 C02"),
})

CHECKS.update({
    "C04": dict(engine="bytepipe", technique="deterministic simulation: litep2p's framed Substream over real yamux streams on a simulated carrier; message-FIFO reference model; sender stops polling after completion",
        text="A sender and a receiver task exchange messages through litep2p's framed Substream wrapped around a real yamux stream pair whose two connections are driven by their own tasks on a simulated carrier (seeded fragmentation, short writes, Pending, bounded window) under the seeded scheduler. Codecs: fixed-size frames below, at and above 1024 bytes; varint with small, large and no sender-side maximum. Messages of 0, 1, max-1, max, max+1 bytes, larger than the 64 KiB back-pressure boundary and the 256 KiB flow-control window; APIs Sink send, feed+flush, send_framed; receiver stalls; malformed raw length prefixes. Reference model: FIFO of messages. Oracle: received sequence equals the sequence handed over; illegal sizes are refused at the sender; a legal send never fails; every message whose send/flush returned Ok is obtained by the receiver although the sender never polls again; malformed prefixes end the stream without panic or oversize message.", ref="DESIGN.md §5 C04"),
})

CHECKS.update({
    "C03": dict(engine="bytepipe", technique="deterministic simulation: real multistream-select dialer/listener tasks over a simulated carrier, differential against rust-libp2p's multistream-select, message-variant groupings",
        text="A dialer task (dialer_select_proto, V1 or V1Lazy) and a listener task (listener_select_proto) run over a simulated carrier with seeded fragmentation down to single bytes, short writes and Pending under the seeded scheduler, each immediately followed by application traffic; differential variants put rust-libp2p's multistream-select 0.13 on either side; the message-based variant drives WebRtcDialerState against webrtc_listener_negotiate with seeded message groupings. Preference lists and listener sets are drawn from a pool built to collide (prefixes of each other, long names). Oracle: both sides terminate; if the sets intersect both report the dialer's most preferred protocol that the listener supports, otherwise both fail; every application byte written after negotiation arrives unchanged and none is consumed by the negotiation, even when the payload looks like negotiation frames.", ref="DESIGN.md §5 C03"),
})

CHECKS.update({
    "C10": dict(engine="nodesim", technique="deterministic simulation: operation histories against a whole litep2p node on a simulated network; snapshot-transition oracle over the address book read through a guarded accessor",
        text="A complete litep2p node executes seeded histories of add_known_address (generated address shapes incl. missing / foreign / duplicate peer ids, unspecified and own addresses, unsupported stacks, up to 200 distinct addresses against the bound of 64, rediscovery of scored addresses) and dial(peer) whose connection attempts are resolved by the simulated network (refused, black-holed, connected to real peer nodes). After every step the stored addresses with scores are read through the guarded accessor (hook H4) and compared with the previous snapshot: only offered, well-formed, correctly attributed, non-local, dialable addresses appear; never more than 64; a displaced address had a minimal score and not a higher one than the newcomer; adding never changes the score of a stored address; a dial re-scores exactly the addresses it used (100 / -100) and nothing else; the order of SimNet connection attempts (max_parallel_dials=1) is non-increasing in score, without duplicates, limited by the outbound capacity, never skipping a better address; NoAddressAvailable iff nothing is stored." + " In a third of the runs the node and the real peers also run the WebSocket transport: /ws addresses become storable and dialable, a dial by peer id hands each transport its share of the score order; order and skipped-address rules are then judged per transport (and across transports when the dial failed as a whole before the overall dial deadline).", ref="DESIGN.md §5 C10"),
})

CHECKS.update({
    "C14": dict(engine="kadsim", technique="simulation of event histories against the real routing table with a brute-force reference model (no scheduler: single-task component)",
        text="The real Kademlia RoutingTable receives seeded histories of the events Kademlia feeds it (peer discovered with addresses and connection type, connection established, disconnect, dial failure) over genuine peer ids, whose SHA-256 keys overflow the far buckets through the real API, and crafted raw keys (guarded hook) that populate every bucket 0..255. After every event the set of stored peers is probed and closest(target, k) is compared with a brute-force model for targets in every bucket relative to the local key (incl. the local key and distances 1..3) and k in {1,3,20,60}. Oracle: the local node is never stored; at most 20 stored peers share a bucket index; a connected peer is never displaced; closest() returns exactly the k stored address-bearing peers nearest to the target in non-decreasing XOR distance without duplicates. There is no schedule or clock in this property; it is decided with the history/reference-model part of the technique.", ref="DESIGN.md §5 C14"),
    "C15": dict(engine="kadsim", technique="deterministic simulation: the real QueryEngine against a generated peer network, seeded reply scheduler (order, loss, lies) and clock jumps",
        text="A harness plays Kademlia's role towards the real QueryEngine (next_action until None, then one network event) for 1-3 concurrent queries of every kind against a generated network (who knows whom; honest, lying, silent and unreachable peers) on the simulated clock; a seeded scheduler decides which outstanding request is answered, fails or keeps waiting and when the clock jumps across the 10 s peer time-out. Oracle: never a request to the local node or twice to the same peer; at most alpha unanswered requests younger than the peer time-out; exactly one terminal result per query within a step budget for every reply schedule; on success the reported peers answered, are sorted by distance, at most k, and every learned peer closer than the furthest reported one was contacted; every record/provider returned by a peer surfaces exactly once; no request after a GET_VALUE quorum is met.", ref="DESIGN.md §5 C15"),
    "C17": dict(engine="kadsim", technique="deterministic simulation on the virtual clock: operation histories with clock advances against the real MemoryStore in lock-step with a reference store",
        text="The real MemoryStore runs on the simulated clock (record/provider expiry through std::time::Instant, refresh timers through tokio) and executes seeded histories of put / get / put_provider / get_providers / put_local_provider / remove_local_provider with clock advances placed across expiry instants, under drawn configurations incl. bounds 0 and 1, in lock-step with a reference store (maps and sorted vectors). Oracle: every read equals the reference; no expired record or provider is returned; no record above the size limit; at most max_records readable; providers strictly sorted by distance to the key (no duplicate provider), at most max_providers_per_key, addresses truncated to the bound; put_provider results equal the reference (closest retained, re-announcement in place, key bound).", ref="DESIGN.md §5 C17"),
})

NOT_BUILT = {
}

NOT_APPLICABLE = {
    "C18": "pure function of a byte string / key (peer-id derivation and parsing): no schedule, clock, fault or interleaving to simulate; a differential-fuzzing target, not a simulation target",
    "C19": "totality of pure decoders over all byte strings: decided by input generation, not by simulation; nothing time-, order- or fault-dependent in the decoders themselves",
    "C20": "CID recomputation and response batching are pure functions of block contents and sizes; nothing time-, order- or fault-dependent",
}

def main():
    props = [json.loads(l) for l in open("/verif/properties.jsonl")]
    ids = [p["id"] for p in props]
    checks = []
    for pid in ids:
        if pid in CHECKS:
            c = CHECKS[pid]
            checks.append({
                "property_id": pid,
                "quick_cmd": f"./check {pid} quick",
                "thorough_cmd": f"./check {pid} thorough",
                "evidence_file": f"/verif/evidence/{pid}.json",
                "replay_cmd_template": "./check replay {path}",
                "engine": c["engine"],
                "level_claimed": {"category": c.get("category", "exploration"), "text": c["text"], "design_ref": c["ref"]},
                "level_note": c.get("note", TRUST),
                "technique": c["technique"],
            })
    na = []
    for pid in ids:
        if pid in CHECKS:
            continue
        if pid in NOT_APPLICABLE:
            na.append({"property_id": pid, "reason": NOT_APPLICABLE[pid]})
        else:
            na.append({"property_id": pid, "reason": NOT_BUILT.get(pid, "not claimed yet: the simulation check for this property is planned in DESIGN.md but not built/registered at this commit")})
    engines = {}
    for pid, c in CHECKS.items():
        engines.setdefault(c["engine"], []).append(pid)
    m = {
        "version": 1,
        "setup_cmd": "./check build",
        "hooks": {
            "guard": "--cfg litep2p_verif",
            "enable": "RUSTFLAGS='--cfg litep2p_verif --cfg tokio_unstable' via /verif/sim/.cargo/config.toml; litep2p is a path dependency on /repo",
            "baseline_off_cmd": "/verif/baseline_off.sh",
            "source_commits": HOOK_COMMITS,
            "add_only": True,
        },
        "engines": [
            {"name": n, "path": "/verif/sim", "serves_properties": sorted(v), "kind_free_text": "deterministic simulation with fault injection (vsim)"} for n, v in sorted(engines.items())
        ],
        "checks": checks,
        "not_applicable": na,
        "notes": "All checks are `vsim` (Rust, /verif/sim) runs: one seed = one exactly repeatable execution; VERIF_SEED selects the first seed of the batch. Exit 2 = harness error (build failure, nondeterminism, replay mismatch). Known findings: /verif/KNOWN_FINDINGS.jsonl.",
    }
    json.dump(m, open("/verif/MANIFEST.json", "w"), indent=1)
    print("checks:", [c["property_id"] for c in checks])

main()
