#!/bin/bash
# usage: mkmutant.sh <PROP> <name> <file> <python-expr old> <new>   -- helper: apply a textual replacement in /repo, save as patch, revert
set -e
prop=$1; name=$2; file=$3; old=$4; new=$5
cd /repo
python3 - "$file" "$old" "$new" <<'PY'
import sys
p,old,new=sys.argv[1:4]
s=open(p).read()
assert s.count(old)>=1, "pattern not found: "+old
s=s.replace(old,new,1)
open(p,'w').write(s)
PY
mkdir -p /verif/mutants/$prop
git diff > /verif/mutants/$prop/$name.patch
git checkout -- .
echo "wrote /verif/mutants/$prop/$name.patch"
