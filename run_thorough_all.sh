#!/bin/bash
# usage: run_thorough_all.sh [PROP...]   runs the thorough tier of every (or the given) check with a scratch
# VERIF_DIR (committed evidence stays the quick tier's) and appends one line per check to thorough_results.txt
props=${@:-C01 C02 C03 C04 C05 C06 C07 C08 C09 C10 C11 C12 C13 C14 C15 C16 C17}
out=/verif/thorough_results.txt
echo "# thorough tier, $(date -u +%FT%TZ), repo $(git -C /repo rev-parse --short HEAD), verif $(git -C /verif rev-parse --short HEAD)" >> $out
for p in $props; do
  log=$(VERIF_DIR=/var/tmp/vsim-thorough /verif/check_mut $p thorough 2>&1); rc=$?
  echo "$p rc=$rc $(echo "$log" | grep -E '^vsim: property' | sed 's/vsim: property=[A-Z0-9]* //' | tr '\n' '|' | cut -c1-330) $(echo "$log" | grep -E 'VIOLATION|HARNESS|class:' | head -3 | tr '\n' ' ' | cut -c1-300)" | tee -a $out
done
