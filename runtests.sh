#!/bin/bash
# run the pinned suite in /repo (guard off); exit status is the suite's
cd /repo && cargo nextest run --workspace --no-fail-fast --tool-config-file pb:/w/lib/nextest.toml --profile pb --test-threads 8 --offline > /var/tmp/t.log 2>&1
rc=$?
tail -3 /var/tmp/t.log
exit $rc
