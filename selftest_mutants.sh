#!/bin/bash
# Sensitivity self-test: applies each mutant patch to /repo, runs the property's quick check,
# expects a VIOLATION (exit 1), reverts. Not a registered check. usage: selftest_mutants.sh [PROP...]
cd /verif
if [ -n "$(git -C /repo status --porcelain)" ]; then echo "refusing: /repo has uncommitted changes"; exit 2; fi
props=${@:-$(ls mutants)}
fail=0
for p in $props; do
  for m in mutants/$p/*.patch; do
    [ -f "$m" ] || continue
    if ! git -C /repo apply "$PWD/$m" 2>/dev/null; then echo "$p $(basename $m): PATCH-DOES-NOT-APPLY"; fail=1; continue; fi
    out=$(VERIF_DIR=/var/tmp/vsim-mut ./check_mut $p quick 2>&1); rc=$?
    git -C /repo checkout -- .
    cls=$(echo "$out" | grep -m1 "class:" | sed 's/.*class: //')
    if [ $rc -eq 1 ]; then echo "$p $(basename $m): CAUGHT ($cls)"; else echo "$p $(basename $m): MISSED rc=$rc"; fail=1; fi
  done
done
rm -rf /var/tmp/vsim-mut
# rebuild against the clean tree
./check build
exit $fail
