#!/usr/bin/env python3
import json,sys
for f in sys.argv[1:]:
    j=json.load(open(f))
    c=j['case']
    print(f, 'shrink_tries', j.get('shrink_tries'))
    print('VIOLATION', j['violation'])
    print(json.dumps({k:c[k] for k in c if k not in ('ops','faults')}))
    for o in c.get('ops',[]): print('  op',json.dumps(o))
    for o in c.get('faults',[]): print('  fault',json.dumps(o))
    for l in j['history']: print('   ',l)
