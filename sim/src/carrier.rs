//! In-memory byte carrier for the component-level (`bytepipe`) scenarios: a duplex pipe
//! implementing `futures::io::{AsyncRead, AsyncWrite}` with seeded fragmentation, short writes,
//! spurious `Pending`, a bounded window (back-pressure) and an attacker ("mangler") per direction
//! that rewrites the byte stream as it is written.
use crate::rng::Rng;
use crate::sim::Handle;
use futures::io::{AsyncRead, AsyncWrite};
use serde_json::Value;
use std::{
    collections::VecDeque,
    io,
    pin::Pin,
    sync::{Arc, Mutex},
    task::{Context, Poll, Waker},
};

#[derive(Clone, Debug)]
pub struct CarrierKnobs {
    pub max_chunk: usize,
    pub short_write: bool,
    pub pending_pct: u64,
    pub window: usize,
}

impl CarrierKnobs {
    pub fn gen(rng: &mut Rng) -> Value {
        serde_json::json!({
            "max_chunk": *rng.pick(&[1usize, 2, 3, 17, 100, 1024, 65535, 65536, 1 << 20]),
            "short_write": rng.chance(1, 2),
            "pending_pct": *rng.pick(&[0u64, 0, 10, 40]),
            "window": *rng.pick(&[64usize, 4096, 70_000, 1 << 22]),
        })
    }
    pub fn from_json(v: &Value) -> CarrierKnobs {
        CarrierKnobs {
            max_chunk: v["max_chunk"].as_u64().unwrap_or(65536).max(1) as usize,
            short_write: v["short_write"].as_bool().unwrap_or(false),
            pending_pct: v["pending_pct"].as_u64().unwrap_or(0),
            window: v["window"].as_u64().unwrap_or(1 << 22).max(1) as usize,
        }
    }
}

/// Attacker on one direction: rewrites the stream as it is written.
pub trait Mangler: Send {
    /// `data` was written by the endpoint; returns what is put on the wire. `close` asks the wire
    /// to signal EOF to the reader after the returned bytes.
    fn mangle(&mut self, data: &[u8], close: &mut bool) -> Vec<u8>;
}

pub struct Wire {
    buf: VecDeque<u8>,
    /// writer closed (reader gets EOF after draining)
    closed: bool,
    /// reader dropped
    reader_gone: bool,
    rwaker: Option<Waker>,
    wwaker: Option<Waker>,
    pub mangler: Option<Box<dyn Mangler>>,
    /// bytes accepted from the writer (before mangling)
    pub written: u64,
    /// bytes handed to the reader
    pub delivered: u64,
}

impl Wire {
    fn new() -> Wire {
        Wire { buf: VecDeque::new(), closed: false, reader_gone: false, rwaker: None, wwaker: None, mangler: None, written: 0, delivered: 0 }
    }
}

pub struct End {
    pub rx: Arc<Mutex<Wire>>,
    pub tx: Arc<Mutex<Wire>>,
    rng: Rng,
    knobs: CarrierKnobs,
    handle: Handle,
    spurious_r: bool,
    spurious_w: bool,
}

/// A connected pair of endpoints. `wires.0` carries a→b, `wires.1` carries b→a.
pub fn duplex(handle: &Handle, seed: u64, knobs: &CarrierKnobs) -> (End, End, (Arc<Mutex<Wire>>, Arc<Mutex<Wire>>)) {
    let ab = Arc::new(Mutex::new(Wire::new()));
    let ba = Arc::new(Mutex::new(Wire::new()));
    let mut r = Rng::fork(seed, "carrier");
    let a = End { rx: ba.clone(), tx: ab.clone(), rng: Rng::new(r.next()), knobs: knobs.clone(), handle: handle.clone(), spurious_r: false, spurious_w: false };
    let b = End { rx: ab.clone(), tx: ba.clone(), rng: Rng::new(r.next()), knobs: knobs.clone(), handle: handle.clone(), spurious_r: false, spurious_w: false };
    (a, b, (ab, ba))
}

impl AsyncRead for End {
    fn poll_read(mut self: Pin<&mut Self>, cx: &mut Context<'_>, buf: &mut [u8]) -> Poll<io::Result<usize>> {
        let this = &mut *self;
        if buf.is_empty() {
            return Poll::Ready(Ok(0));
        }
        if this.knobs.pending_pct > 0 && !this.spurious_r && this.rng.below(100) < this.knobs.pending_pct {
            this.spurious_r = true;
            cx.waker().wake_by_ref();
            this.handle.fault("spurious_pending");
            return Poll::Pending;
        }
        this.spurious_r = false;
        let mut w = this.rx.lock().unwrap();
        if w.buf.is_empty() {
            if w.closed {
                return Poll::Ready(Ok(0));
            }
            w.rwaker = Some(cx.waker().clone());
            return Poll::Pending;
        }
        let chunk = 1 + this.rng.below(this.knobs.max_chunk as u64) as usize;
        let n = buf.len().min(w.buf.len()).min(chunk);
        if n < buf.len() && n < w.buf.len() {
            this.handle.fault("fragment");
        }
        for b in buf.iter_mut().take(n) {
            *b = w.buf.pop_front().unwrap();
        }
        w.delivered += n as u64;
        if let Some(wk) = w.wwaker.take() {
            wk.wake();
        }
        Poll::Ready(Ok(n))
    }
}

impl AsyncWrite for End {
    fn poll_write(mut self: Pin<&mut Self>, cx: &mut Context<'_>, buf: &[u8]) -> Poll<io::Result<usize>> {
        let this = &mut *self;
        if buf.is_empty() {
            return Poll::Ready(Ok(0));
        }
        if this.knobs.pending_pct > 0 && !this.spurious_w && this.rng.below(100) < this.knobs.pending_pct {
            this.spurious_w = true;
            cx.waker().wake_by_ref();
            this.handle.fault("spurious_pending");
            return Poll::Pending;
        }
        this.spurious_w = false;
        let mut w = this.tx.lock().unwrap();
        if w.closed || w.reader_gone {
            return Poll::Ready(Err(io::ErrorKind::BrokenPipe.into()));
        }
        if w.buf.len() >= this.knobs.window {
            w.wwaker = Some(cx.waker().clone());
            this.handle.fault("backpressure");
            return Poll::Pending;
        }
        let mut n = buf.len().min(this.knobs.window - w.buf.len());
        if this.knobs.short_write && n > 1 && this.rng.chance(1, 2) {
            n = 1 + this.rng.below(n as u64) as usize;
            this.handle.fault("short_write");
        }
        w.written += n as u64;
        let mut close = false;
        let out = match w.mangler.as_mut() {
            Some(m) => m.mangle(&buf[..n], &mut close),
            None => buf[..n].to_vec(),
        };
        w.buf.extend(out);
        if close {
            w.closed = true;
        }
        if let Some(wk) = w.rwaker.take() {
            wk.wake();
        }
        Poll::Ready(Ok(n))
    }
    fn poll_flush(self: Pin<&mut Self>, _: &mut Context<'_>) -> Poll<io::Result<()>> {
        Poll::Ready(Ok(()))
    }
    fn poll_close(self: Pin<&mut Self>, _: &mut Context<'_>) -> Poll<io::Result<()>> {
        let mut w = self.tx.lock().unwrap();
        w.closed = true;
        if let Some(wk) = w.rwaker.take() {
            wk.wake();
        }
        Poll::Ready(Ok(()))
    }
}

impl Drop for End {
    fn drop(&mut self) {
        {
            let mut w = self.tx.lock().unwrap();
            w.closed = true;
            if let Some(wk) = w.rwaker.take() {
                wk.wake();
            }
        }
        let mut r = self.rx.lock().unwrap();
        r.reader_gone = true;
        if let Some(wk) = r.wwaker.take() {
            wk.wake();
        }
    }
}

/// Byte-offset attacker: XOR / overwrite one byte or cut the stream at an absolute offset.
pub struct OffsetMangler {
    pub pos: u64,
    pub offset: u64,
    /// "flip" (xor mask), "set" (value), "truncate"
    pub kind: String,
    pub arg: u8,
    pub fired: Arc<Mutex<bool>>,
}

impl Mangler for OffsetMangler {
    fn mangle(&mut self, data: &[u8], close: &mut bool) -> Vec<u8> {
        let start = self.pos;
        self.pos += data.len() as u64;
        let mut out = data.to_vec();
        if self.offset >= start && self.offset < self.pos {
            let k = (self.offset - start) as usize;
            match self.kind.as_str() {
                "flip" => {
                    out[k] ^= self.arg.max(1);
                    *self.fired.lock().unwrap() = true;
                }
                "set" => {
                    if out[k] != self.arg {
                        *self.fired.lock().unwrap() = true;
                    }
                    out[k] = self.arg;
                }
                _ => {
                    out.truncate(k);
                    *close = true;
                    *self.fired.lock().unwrap() = true;
                }
            }
        } else if self.kind == "truncate" && self.offset < start {
            out.clear();
            *close = true;
        }
        out
    }
}

/// Frame-level attacker for streams of `[u16 BE length][body]` frames (Noise transport).
pub struct FrameMangler {
    /// "flip", "drop", "dup", "swap", "trunc"
    pub kind: String,
    pub k: u64,
    pub arg: u64,
    acc: Vec<u8>,
    frame_no: u64,
    /// "trunc": the bytes cut off the attacked frame and its plaintext length, until the bytes
    /// that slide into their place are known
    cut: Option<(Vec<u8>, u64)>,
    held: Option<Vec<u8>>,
    /// (fired, plaintext bytes in the frames that passed untouched before the attack)
    pub state: Arc<Mutex<(bool, u64)>>,
}

impl FrameMangler {
    pub fn new(kind: &str, k: u64, arg: u64) -> (FrameMangler, Arc<Mutex<(bool, u64)>>) {
        let state = Arc::new(Mutex::new((false, 0)));
        (FrameMangler { kind: kind.to_string(), k, arg, acc: Vec::new(), frame_no: 0, cut: None, held: None, state: state.clone() }, state)
    }
}

impl Mangler for FrameMangler {
    fn mangle(&mut self, data: &[u8], _close: &mut bool) -> Vec<u8> {
        self.acc.extend_from_slice(data);
        let mut out = Vec::new();
        loop {
            if self.acc.len() < 2 {
                break;
            }
            let len = u16::from_be_bytes([self.acc[0], self.acc[1]]) as usize;
            if self.acc.len() < 2 + len {
                break;
            }
            let frame: Vec<u8> = self.acc.drain(..2 + len).collect();
            let no = self.frame_no;
            self.frame_no += 1;
            let mut st = self.state.lock().unwrap();
            if no < self.k {
                st.1 += len.saturating_sub(16) as u64;
                out.extend(frame);
                continue;
            }
            if no == self.k {
                st.0 = true;
                match self.kind.as_str() {
                    "flip" => {
                        let mut f = frame.clone();
                        if len > 0 {
                            let idx = 2 + (self.arg as usize % len);
                            f[idx] ^= 0x01;
                        }
                        out.extend(f);
                    }
                    "drop" => {}
                    "dup" => {
                        // the frame itself is genuine; its replay is not
                        st.1 += len.saturating_sub(16) as u64;
                        out.extend(frame.clone());
                        out.extend(frame);
                    }
                    "swap" => {
                        self.held = Some(frame);
                    }
                    _ => {
                        // keep the length prefix, cut the body short, then go on with the next frame
                        let keep = 2 + (self.arg as usize % len.max(1));
                        out.extend(&frame[..keep]);
                        self.cut = Some((frame[keep..].to_vec(), len.saturating_sub(16) as u64));
                    }
                }
                continue;
            }
            if let Some((removed, plain)) = self.cut.take() {
                // the first bytes of what follows complete the shortened frame: if they happen to
                // equal what was cut off, the attacked frame reaches the reader bit-identical
                // (it is the following frame that is damaged)
                if frame.len() >= removed.len() && frame[..removed.len()] == removed[..] {
                    st.1 += plain;
                } else if frame.len() < removed.len() {
                    self.cut = Some((removed, plain));
                }
            }
            if let Some(h) = self.held.take() {
                out.extend(frame);
                out.extend(h);
                continue;
            }
            out.extend(frame);
        }
        out
    }
}
