//! vsim — deterministic simulation with fault injection for litep2p.
mod carrier;
mod node;
mod nodesim;
mod props;
mod rng;
mod runner;
mod seams;
mod sim;
mod simnet;

use runner::{CheckOpts, Tier};

fn usage() -> ! {
    eprintln!("usage: vsim check --property <ID> [--tier quick|thorough] [--seed N] [--jobs N] [--runs N] [--wall S]\n       vsim replay <file> [--quiet]\n       vsim gen --property <ID> --seed N\n       vsim determinism [--property <ID>] [--seeds N]\n       vsim list");
    std::process::exit(2)
}

fn arg(args: &[String], name: &str) -> Option<String> {
    args.iter().position(|a| a == name).and_then(|i| args.get(i + 1).cloned())
}

fn main() {
    // panics inside simulated tasks are caught and reported as violations; keep stderr quiet
    if std::env::var("VSIM_PANIC_TRACE").is_err() {
        std::panic::set_hook(Box::new(|_| {}));
    }
    // VSIM_TRACE=<env-filter> prints litep2p's tracing output (triage only)
    if let Ok(f) = std::env::var("VSIM_TRACE") {
        let _ = tracing_subscriber::fmt().with_env_filter(tracing_subscriber::EnvFilter::new(f)).without_time().with_ansi(false).with_writer(std::io::stderr).try_init();
    }
    let args: Vec<String> = std::env::args().collect();
    if args.len() < 2 {
        usage();
    }
    let verif_dir = std::env::var("VERIF_DIR").unwrap_or_else(|_| "/verif".to_string());
    match args[1].as_str() {
        "seamtest" => {
            // every entropy consumer must follow the seam: two armed draws with one seed are equal,
            // different seeds differ, and a disarmed draw is real
            fn draw(seed: u64) -> (Vec<u8>, Vec<u8>) {
                std::thread::spawn(move || {
                    seams::enter(seed);
                    let kp = litep2p::crypto::ed25519::Keypair::generate(); // rand OsRng -> getrandom 0.2 -> syscall()
                    let mut b = [0u8; 16];
                    unsafe { libc::getrandom(b.as_mut_ptr() as *mut _, 16, 0) };
                    let h = {
                        use std::hash::{BuildHasher, Hasher};
                        std::collections::hash_map::RandomState::new().build_hasher().finish()
                    };
                    seams::leave();
                    (kp.public().to_bytes().to_vec(), [b.to_vec(), h.to_le_bytes().to_vec()].concat())
                })
                .join()
                .unwrap()
            }
            let (a, b, c) = (draw(7), draw(7), draw(8));
            let real1 = litep2p::crypto::ed25519::Keypair::generate().public().to_bytes();
            let real2 = litep2p::crypto::ed25519::Keypair::generate().public().to_bytes();
            let ok = a == b && a.0 != c.0 && a.1 != c.1 && real1 != real2;
            println!("seamtest: same-seed-equal={} diff-seed-differs={} real-differs={}", a == b, a.0 != c.0, real1 != real2);
            std::process::exit(if ok { 0 } else { 2 });
        }
        "list" => {
            for p in props::all() {
                println!("{}", p.id());
            }
        }
        "check" => {
            let id = arg(&args, "--property").unwrap_or_else(|| usage());
            let Some(prop) = props::by_id(&id) else {
                eprintln!("unknown property {id}");
                std::process::exit(2)
            };
            let tier = match arg(&args, "--tier").or_else(|| std::env::var("VERIF_TIER").ok()).as_deref() {
                Some("thorough") => Tier::Thorough,
                _ => Tier::Quick,
            };
            let seed = arg(&args, "--seed").or_else(|| std::env::var("VERIF_SEED").ok()).and_then(|s| s.parse().ok()).unwrap_or(20260925);
            let jobs = arg(&args, "--jobs").and_then(|s| s.parse().ok()).unwrap_or(16);
            let opts = CheckOpts { tier, seed, jobs, verif_dir, runs_override: arg(&args, "--runs").and_then(|s| s.parse().ok()), wall_override: arg(&args, "--wall").and_then(|s| s.parse().ok()) };
            std::process::exit(runner::check(prop, &opts));
        }
        "gen" => {
            let id = arg(&args, "--property").unwrap_or_else(|| usage());
            let prop = props::by_id(&id).unwrap_or_else(|| usage());
            let seed = arg(&args, "--seed").and_then(|s| s.parse().ok()).unwrap_or(1);
            let tier = if arg(&args, "--tier").as_deref() == Some("thorough") { Tier::Thorough } else { Tier::Quick };
            let case = runner::gen_case(prop.as_ref(), seed, tier);
            println!("{}", serde_json::to_string_pretty(&serde_json::json!({"property": id, "violation": {"class": ""}, "case": case})).unwrap());
        }
        "replay" => {
            let Some(path) = args.get(2) else { usage() };
            let quiet = args.iter().any(|a| a == "--quiet");
            let s = std::fs::read_to_string(path).unwrap_or_else(|e| {
                eprintln!("cannot read {path}: {e}");
                std::process::exit(2)
            });
            let file: serde_json::Value = serde_json::from_str(&s).unwrap_or_else(|e| {
                eprintln!("bad replay file: {e}");
                std::process::exit(2)
            });
            let id = file["property"].as_str().unwrap_or("");
            let Some(prop) = props::by_id(id) else {
                eprintln!("unknown property {id}");
                std::process::exit(2)
            };
            std::process::exit(runner::replay(&*prop, &file, quiet));
        }
        "determinism" => {
            let seeds: u64 = arg(&args, "--seeds").and_then(|s| s.parse().ok()).unwrap_or(200);
            let only = arg(&args, "--property");
            let mut bad = 0;
            for p in props::all() {
                if let Some(o) = &only {
                    if p.id() != o {
                        continue;
                    }
                }
                bad += runner::determinism(p, seeds, 20260925);
            }
            std::process::exit(if bad == 0 { 0 } else { 2 });
        }
        _ => usage(),
    }
}
