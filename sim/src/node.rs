//! Helpers shared by the whole-node (`nodesim`) scenarios: identities, addresses, configuration.
use crate::rng::Rng;
use crate::sim::{Handle, SimExecutor};
use litep2p::{
    config::ConfigBuilder,
    crypto::ed25519::{Keypair, SecretKey},
    transport::tcp::config::Config as TcpConfig,
    transport::websocket::config::Config as WsConfig,
    PeerId,
};
use multiaddr::Multiaddr;
use serde_json::Value;
use std::{
    cell::Cell,
    net::{IpAddr, Ipv4Addr},
    sync::Arc,
    time::Duration,
};

thread_local! {
    /// node whose task is currently being polled (0 = harness)
    pub static CURRENT_NODE: Cell<usize> = const { Cell::new(0) };
    /// run-wide transport flavour: every node also runs the WebSocket transport and the addresses
    /// the scenario hands out (`full_addr`) are WebSocket addresses, so that every connection of
    /// the run is a `WebSocketConnection` (set by `base_config` from `knobs["transport"]`; every
    /// run has its own OS thread)
    pub static WS_MODE: Cell<bool> = const { Cell::new(false) };
}

/// Transport flavour of a whole-node case (an independent stream of the seed, so that the cases
/// generated before this flavour existed are unchanged): in one run in five all connections go
/// over the WebSocket transport. tungstenite treats an HTTP upgrade request arriving in more than
/// 64 reads of fewer than 128 bytes on average as an attack, so the network of such a run does not
/// fragment below 64 bytes per read.
pub fn maybe_ws_transport(seed: u64, case: &mut Value) {
    if !case["node_knobs"].is_object() || (case["mode"].is_string() && case["mode"] != "builtin") {
        return;
    }
    let mut r = Rng::fork(seed, "ws-transport");
    if r.chance(1, 5) {
        case["node_knobs"]["transport"] = serde_json::json!("ws");
        if case["net"].is_object() && case["net"]["max_chunk"].as_u64().unwrap_or(4096) < 64 {
            case["net"]["max_chunk"] = serde_json::json!(64);
        }
    }
}

pub fn node_ip(i: usize) -> IpAddr {
    IpAddr::V4(Ipv4Addr::new(10, 0, 0, i as u8))
}

pub fn current_node_ip() -> IpAddr {
    node_ip(CURRENT_NODE.with(|c| c.get()))
}

pub fn keypair(seed: u64, i: usize) -> Keypair {
    let mut r = Rng::fork(seed, &format!("key{i}"));
    let b = r.bytes(32);
    let mut a = [0u8; 32];
    a.copy_from_slice(&b);
    Keypair::from(SecretKey::try_from_bytes(a).expect("key"))
}

pub fn peer_id(seed: u64, i: usize) -> PeerId {
    PeerId::from_public_key(&litep2p::crypto::PublicKey::Ed25519(keypair(seed, i).public()))
}

pub fn port(i: usize) -> u16 {
    30000 + i as u16
}

/// `/ip4/10.0.0.i/tcp/3000i`
pub fn listen_addr(i: usize) -> Multiaddr {
    format!("/ip4/10.0.0.{i}/tcp/{}", port(i)).parse().unwrap()
}

/// WebSocket listen port of node `i` (below SimNet's ephemeral range, distinct from the TCP port)
pub fn ws_port(i: usize) -> u16 {
    31000 + i as u16
}

/// `/ip4/10.0.0.i/tcp/3100i/ws`
pub fn ws_listen_addr(i: usize) -> Multiaddr {
    format!("/ip4/10.0.0.{i}/tcp/{}/ws", ws_port(i)).parse().unwrap()
}

/// WebSocket listen address with `/p2p/<peer>` appended
pub fn ws_full_addr(seed: u64, i: usize) -> Multiaddr {
    ws_listen_addr(i).with(multiaddr::Protocol::P2p(peer_id(seed, i).into()))
}

/// does node `i` run the WebSocket transport next to TCP in this run (`knobs["ws_nodes"]`)
pub fn has_ws(knobs: &Value, i: usize) -> bool {
    knobs["transport"] == "ws" || knobs["ws_nodes"].as_array().is_some_and(|a| a.iter().any(|x| x.as_u64() == Some(i as u64)))
}

/// the address of node `i` the scenario hands out, `/p2p/<peer>` appended: TCP, or WebSocket in
/// a run of the WebSocket flavour
pub fn full_addr(seed: u64, i: usize) -> Multiaddr {
    if WS_MODE.with(|c| c.get()) {
        return ws_full_addr(seed, i);
    }
    listen_addr(i).with(multiaddr::Protocol::P2p(peer_id(seed, i).into()))
}

pub fn with_p2p(addr: Multiaddr, peer: PeerId) -> Multiaddr {
    addr.with(multiaddr::Protocol::P2p(peer.into()))
}

pub fn ms(v: &Value, key: &str, default: u64) -> Duration {
    Duration::from_millis(v[key].as_u64().unwrap_or(default))
}

/// Transport-level knobs of one node (swarm style: drawn per run).
pub fn gen_node_knobs(rng: &mut Rng) -> Value {
    serde_json::json!({
        "conn_open_timeout_ms": *rng.pick(&[1000u64, 3000, 10_000]),
        "substream_open_timeout_ms": *rng.pick(&[500u64, 2000, 5000]),
        "keep_alive_ms": *rng.pick(&[1000u64, 5000, 5000, 30_000]),
        "max_parallel_dials": *rng.pick(&[1u64, 2, 8]),
        "noise_read_ahead": rng.range(1, 5),
        "noise_write_buffer": rng.range(1, 3),
        "yamux_split": *rng.pick(&[1024u64, 16384, 16384, 65536]),
    })
}

/// Base configuration of node `i`: identity from the seed, simulated executor, TCP on SimNet.
pub fn base_config(handle: &Handle, seed: u64, i: usize, knobs: &Value) -> ConfigBuilder {
    let mut yamux = litep2p::yamux::Config::default();
    if let Some(w) = knobs["yamux_split"].as_u64() {
        yamux.set_split_send_size(w as usize);
    }
    if knobs["transport"] == "ws" {
        WS_MODE.with(|c| c.set(true));
    }
    let ws = has_ws(knobs, i).then(|| WsConfig {
        listen_addresses: vec![ws_listen_addr(i)],
        reuse_port: true,
        nodelay: false,
        yamux_config: yamux.clone(),
        noise_read_ahead_frame_count: knobs["noise_read_ahead"].as_u64().unwrap_or(5) as usize,
        noise_write_buffer_size: knobs["noise_write_buffer"].as_u64().unwrap_or(2) as usize,
        connection_open_timeout: ms(knobs, "conn_open_timeout_ms", 10_000),
        substream_open_timeout: ms(knobs, "substream_open_timeout_ms", 5_000),
        max_parallel_dials: knobs["max_parallel_dials"].as_u64().unwrap_or(8) as usize,
    });
    let tcp = TcpConfig {
        listen_addresses: vec![listen_addr(i)],
        reuse_port: true,
        nodelay: false,
        yamux_config: yamux,
        noise_read_ahead_frame_count: knobs["noise_read_ahead"].as_u64().unwrap_or(5) as usize,
        noise_write_buffer_size: knobs["noise_write_buffer"].as_u64().unwrap_or(2) as usize,
        connection_open_timeout: ms(knobs, "conn_open_timeout_ms", 10_000),
        substream_open_timeout: ms(knobs, "substream_open_timeout_ms", 5_000),
        max_parallel_dials: knobs["max_parallel_dials"].as_u64().unwrap_or(8) as usize,
    };
    let mut b = ConfigBuilder::new()
        // "identity": another node's key pair (two hosts, one peer id: a restarted or re-homed peer)
        .with_keypair(keypair(seed, knobs["identity"].as_u64().map(|x| x as usize).unwrap_or(i)))
        .with_executor(Arc::new(SimExecutor { node: i, handle: handle.clone() }))
        .with_tcp(tcp)
        .with_keep_alive_timeout(ms(knobs, "keep_alive_ms", 5_000));
    if let Some(ws) = ws {
        b = b.with_websocket(ws);
    }
    if let Some(n) = knobs["max_parallel_dials"].as_u64() {
        b = b.with_max_parallel_dials(n as usize);
    }
    let lim_in = knobs["max_in"].as_u64();
    let lim_out = knobs["max_out"].as_u64();
    if lim_in.is_some() || lim_out.is_some() {
        let mut l = litep2p::transport::ConnectionLimitsConfig::default();
        l = l.max_incoming_connections(lim_in.map(|x| x as usize));
        l = l.max_outgoing_connections(lim_out.map(|x| x as usize));
        b = b.with_connection_limits(l);
    }
    b
}

pub fn short(p: &PeerId) -> String {
    let s = p.to_string();
    s[s.len() - 6..].to_string()
}
