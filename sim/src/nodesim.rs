//! Whole-node engine: pieces shared by the scenarios that run complete `Litep2p` nodes on SimNet.
use crate::node::{node_ip, short};
use crate::rng::Rng;
use crate::sim::{vnow, Handle};
use crate::simnet::{ByteFault, ConnectFault, SimNet};
use futures::StreamExt;
use litep2p::{Litep2p, Litep2pEvent, PeerId};
use multiaddr::Multiaddr;
use serde_json::{json, Value};
use std::{
    collections::BTreeMap,
    sync::{Arc, Mutex},
    time::Duration,
};
use tokio::sync::mpsc::{unbounded_channel, UnboundedReceiver, UnboundedSender};

#[derive(Debug)]
pub enum NodeCmd {
    Dial(PeerId),
    DialAddress(Multiaddr),
    AddAddr(PeerId, Vec<Multiaddr>),
}

#[derive(Clone, Debug, PartialEq)]
pub enum ConnEv {
    Established { peer: PeerId, listener: bool },
    Closed { peer: PeerId },
    DialFailure { address: Multiaddr },
    ListDialFailures { addresses: Vec<Multiaddr> },
    DialResult { what: String, ok: bool, err: String },
    EventLoopEnded,
}

/// Connection-level history of all nodes: (virtual ns, node, event)
pub type ConnHistory = Arc<Mutex<Vec<(u64, usize, ConnEv)>>>;

/// Spawn the task that owns a `Litep2p`: executes commands and records its events.
pub fn spawn_node_loop(handle: &Handle, hist: ConnHistory, i: usize, mut l: Litep2p) -> UnboundedSender<NodeCmd> {
    let (tx, mut rx): (UnboundedSender<NodeCmd>, UnboundedReceiver<NodeCmd>) = unbounded_channel();
    let h = handle.clone();
    handle.spawn(i, "litep2p-event-loop", async move {
        let mut cmds_open = true;
        loop {
            tokio::select! {
                biased;
                cmd = rx.recv(), if cmds_open => match cmd {
                    None => { cmds_open = false; }
                    Some(NodeCmd::Dial(p)) => {
                        let r = l.dial(&p).await;
                        h.event(format!("n{i} dial({}) -> {:?}", short(&p), r));
                        hist.lock().unwrap().push((vnow().as_nanos() as u64, i, ConnEv::DialResult { what: format!("dial:{p}"), ok: r.is_ok(), err: format!("{r:?}") }));
                    }
                    Some(NodeCmd::DialAddress(a)) => {
                        let r = l.dial_address(a.clone()).await;
                        h.event(format!("n{i} dial_address({a}) -> {:?}", r));
                        hist.lock().unwrap().push((vnow().as_nanos() as u64, i, ConnEv::DialResult { what: format!("addr:{a}"), ok: r.is_ok(), err: format!("{r:?}") }));
                    }
                    Some(NodeCmd::AddAddr(p, a)) => {
                        let n = l.add_known_address(p, a.into_iter());
                        h.event(format!("n{i} add_known_address({}) -> {n}", short(&p)));
                    }
                },
                ev = l.next_event() => {
                    let t = vnow().as_nanos() as u64;
                    let ce = match ev {
                        Some(Litep2pEvent::ConnectionEstablished { peer, endpoint }) => ConnEv::Established { peer, listener: endpoint.is_listener() },
                        Some(Litep2pEvent::ConnectionClosed { peer, .. }) => ConnEv::Closed { peer },
                        Some(Litep2pEvent::DialFailure { address, .. }) => ConnEv::DialFailure { address },
                        Some(Litep2pEvent::ListDialFailures { errors }) => ConnEv::ListDialFailures { addresses: errors.into_iter().map(|(a, _)| a).collect() },
                        None => ConnEv::EventLoopEnded,
                    };
                    h.event(format!("n{i} event {}", fmt_ev(&ce)));
                    let ended = ce == ConnEv::EventLoopEnded;
                    hist.lock().unwrap().push((t, i, ce));
                    if ended { break; }
                }
            }
        }
    });
    tx
}

pub fn fmt_ev(e: &ConnEv) -> String {
    match e {
        ConnEv::Established { peer, listener } => format!("ConnectionEstablished({}, listener={listener})", short(peer)),
        ConnEv::Closed { peer } => format!("ConnectionClosed({})", short(peer)),
        ConnEv::DialFailure { address } => format!("DialFailure({address})"),
        ConnEv::ListDialFailures { addresses } => format!("ListDialFailures({} addrs)", addresses.len()),
        ConnEv::DialResult { what, ok, .. } => format!("DialResult({what}, ok={ok})"),
        ConnEv::EventLoopEnded => "EventLoopEnded".into(),
    }
}

/// Materialise a fault plan: time-based network faults over `n` nodes within `[0, span_ms]`.
/// `rate`: expected number of faults (0 = fault-free configuration).
pub fn gen_faults(rng: &mut Rng, n: usize, span_ms: u64, max_faults: u64, allow_kill: bool) -> Vec<Value> {
    let mut v = Vec::new();
    let k = rng.below(max_faults + 1);
    for _ in 0..k {
        let at = rng.below(span_ms.max(1));
        let f = match rng.below(if allow_kill { 10 } else { 8 }) {
            0..=2 => json!({"at_ms": at, "kind": "reset", "k": rng.below(8)}),
            3 => json!({"at_ms": at, "kind": "half_close", "k": rng.below(8), "dir": rng.below(2)}),
            4..=5 => {
                let a = 1 + rng.below(n as u64);
                let mut b = 1 + rng.below(n as u64);
                if b == a {
                    b = 1 + (a % n as u64);
                }
                json!({"at_ms": at, "kind": "partition", "a": a, "b": b, "heal_after_ms": *rng.pick(&[50u64, 500, 3000, 12_000, 40_000])})
            }
            6 => json!({"at_ms": at, "kind": "byte_reset", "conn": rng.below(6), "dir": rng.below(2), "at": byte_offset(rng)}),
            7 => json!({"at_ms": at, "kind": "byte_eof", "conn": rng.below(6), "dir": rng.below(2), "at": byte_offset(rng)}),
            _ => json!({"at_ms": at, "kind": "kill", "node": 1 + rng.below(n as u64), "vanish": rng.chance(1, 2)}),
        };
        v.push(f);
    }
    v.sort_by_key(|f| f["at_ms"].as_u64().unwrap_or(0));
    v
}

/// Corruption in flight (independent stream of the seed): one bit of one byte of the n-th
/// connection flips; Noise must turn it into a failed handshake or a closed connection.
pub fn gen_flip_faults(seed: u64) -> Vec<Value> {
    let mut rng = Rng::fork(seed, "flip-faults");
    let mut v = Vec::new();
    if rng.chance(1, 5) {
        v.push(json!({"at_ms": 0, "kind": "byte_flip", "conn": rng.below(6), "dir": rng.below(2), "at": byte_offset(&mut rng)}));
    }
    v
}

/// Process stalls (an independent stream of the seed, so plans generated before this fault kind
/// existed are unchanged): a node's tasks are not polled for a while.
pub fn gen_freeze_faults(seed: u64, n: usize, span_ms: u64) -> Vec<Value> {
    let mut rng = Rng::fork(seed, "freeze-faults");
    let mut v = Vec::new();
    if rng.chance(1, 4) {
        for _ in 0..rng.range(1, 2) {
            v.push(json!({"at_ms": rng.below(span_ms.max(1)), "kind": "freeze", "node": 1 + rng.below(n as u64), "heal_after_ms": *rng.pick(&[50u64, 500, 3000, 12_000, 40_000])}));
        }
    }
    v
}

fn byte_offset(rng: &mut Rng) -> u64 {
    // handshake phases are within the first ~600 bytes; later offsets hit application traffic
    match rng.below(4) {
        0 => rng.range(1, 60),
        1 => rng.range(60, 700),
        2 => rng.range(700, 3000),
        _ => rng.range(3000, 200_000),
    }
}

pub fn gen_connect_faults(rng: &mut Rng, max: u64) -> Vec<Value> {
    let mut v = Vec::new();
    for _ in 0..rng.below(max + 1) {
        let nth = rng.below(6);
        let f = match rng.below(3) {
            0 => json!({"kind": "connect_refuse", "nth": nth}),
            1 => json!({"kind": "connect_blackhole", "nth": nth}),
            _ => json!({"kind": "connect_slow", "nth": nth, "ms": *rng.pick(&[100u64, 900, 2500, 9000])}),
        };
        v.push(f);
    }
    v
}

/// Install static fault plans (connect-time and byte-offset) into the net before the run.
pub fn install_static_faults(net: &SimNet, faults: &[Value]) {
    let mut st = net.st.lock().unwrap();
    for f in faults {
        match f["kind"].as_str().unwrap_or("") {
            "connect_refuse" => {
                st.connect_faults.insert(f["nth"].as_u64().unwrap_or(0) as usize, ConnectFault::Refuse);
            }
            "connect_blackhole" => {
                st.connect_faults.insert(f["nth"].as_u64().unwrap_or(0) as usize, ConnectFault::Blackhole);
            }
            "connect_slow" => {
                st.connect_faults.insert(f["nth"].as_u64().unwrap_or(0) as usize, ConnectFault::Slow(f["ms"].as_u64().unwrap_or(100)));
            }
            "byte_reset" => {
                st.byte_faults.insert(f["conn"].as_u64().unwrap_or(0) as usize, ByteFault { dir: f["dir"].as_u64().unwrap_or(0) as usize, at: f["at"].as_u64().unwrap_or(1), reset: true, flip: false });
            }
            "byte_eof" => {
                st.byte_faults.insert(f["conn"].as_u64().unwrap_or(0) as usize, ByteFault { dir: f["dir"].as_u64().unwrap_or(0) as usize, at: f["at"].as_u64().unwrap_or(1), reset: false, flip: false });
            }
            "byte_flip" => {
                st.byte_faults.insert(f["conn"].as_u64().unwrap_or(0) as usize, ByteFault { dir: f["dir"].as_u64().unwrap_or(0) as usize, at: f["at"].as_u64().unwrap_or(1), reset: false, flip: true });
            }
            _ => {}
        }
    }
}

/// Callback used by the fault driver for faults that need scenario knowledge.
pub type KillFn = Arc<dyn Fn(usize, bool) + Send + Sync>;
/// Called (from a harness task, `CURRENT_NODE` = 0) when a killed node is to come back.
pub type RestartFn = Arc<dyn Fn(usize) + Send + Sync>;

/// Give some of the plan's kills a restart (independent stream of the seed): the host comes back
/// after `restart_after_ms` with the same identity and listen address and no memory.
pub fn add_restarts(seed: u64, faults: &mut [Value]) {
    let mut rng = Rng::fork(seed, "restart-faults");
    for f in faults.iter_mut() {
        if f["kind"] == "kill" && rng.chance(1, 2) {
            let d = *rng.pick(&[10u64, 500, 3000, 15_000]);
            f["restart_after_ms"] = json!(d);
            f["heal_after_ms"] = json!(d);
        }
    }
}

/// Spawn the task executing the time-based faults of the plan.
pub fn spawn_fault_driver(handle: &Handle, net: &SimNet, faults: &[Value], on_kill: Option<KillFn>) {
    spawn_fault_driver_ex(handle, net, faults, on_kill, None)
}

pub fn spawn_fault_driver_ex(handle: &Handle, net: &SimNet, faults: &[Value], on_kill: Option<KillFn>, on_restart: Option<RestartFn>) {
    let mut timed: Vec<Value> = faults.iter().filter(|f| f.get("at_ms").is_some() && !matches!(f["kind"].as_str(), Some("byte_reset") | Some("byte_eof") | Some("byte_flip"))).cloned().collect();
    // heals are separate timed events
    let mut extra = Vec::new();
    for f in &timed {
        if f["kind"] == "partition" {
            extra.push(json!({"at_ms": f["at_ms"].as_u64().unwrap_or(0) + f["heal_after_ms"].as_u64().unwrap_or(1000), "kind": "heal", "a": f["a"], "b": f["b"]}));
        }
    }
    timed.extend(extra);
    timed.sort_by_key(|f| f["at_ms"].as_u64().unwrap_or(0));
    if timed.is_empty() {
        return;
    }
    let net = net.clone();
    let h = handle.clone();
    handle.spawn(0, "fault-driver", async move {
        let start = tokio::time::Instant::now();
        for f in timed {
            let at = Duration::from_millis(f["at_ms"].as_u64().unwrap_or(0));
            tokio::time::sleep_until(start + at).await;
            match f["kind"].as_str().unwrap_or("") {
                "reset" => {
                    net.reset_live(f["k"].as_u64().unwrap_or(0) as usize);
                }
                "reset_pair" => {
                    net.reset_between(node_ip(f["a"].as_u64().unwrap_or(1) as usize), node_ip(f["b"].as_u64().unwrap_or(2) as usize), f["k"].as_u64().unwrap_or(0) as usize);
                }
                "half_close" => {
                    net.half_close_live(f["k"].as_u64().unwrap_or(0) as usize, f["dir"].as_u64().unwrap_or(0) as usize);
                }
                "partition" => net.partition(node_ip(f["a"].as_u64().unwrap_or(1) as usize), node_ip(f["b"].as_u64().unwrap_or(2) as usize)),
                "heal" => net.heal(node_ip(f["a"].as_u64().unwrap_or(1) as usize), node_ip(f["b"].as_u64().unwrap_or(2) as usize)),
                "kill" => {
                    let node = f["node"].as_u64().unwrap_or(1) as usize;
                    let vanish = f["vanish"].as_bool().unwrap_or(false);
                    if let Some(k) = &on_kill {
                        k(node, vanish);
                    }
                    net.host_down(node_ip(node), vanish);
                    h.kill_node(node);
                    if let (Some(ms), Some(r)) = (f["restart_after_ms"].as_u64(), on_restart.clone()) {
                        let net = net.clone();
                        h.spawn(0, "restart", async move {
                            tokio::time::sleep(Duration::from_millis(ms)).await;
                            net.host_up(node_ip(node));
                            r(node);
                        });
                    }
                }
                "freeze" => {
                    h.freeze_node(f["node"].as_u64().unwrap_or(1) as usize, Duration::from_millis(f["heal_after_ms"].as_u64().unwrap_or(1000)));
                }
                "clock_jump" => {
                    h.fault("clock_jump");
                    h.event(format!("clock jump {} ms", f["ms"].as_u64().unwrap_or(0)));
                    tokio::time::advance(Duration::from_millis(f["ms"].as_u64().unwrap_or(0))).await;
                }
                _ => {}
            }
        }
    });
}

pub fn last_fault_ms(faults: &[Value]) -> u64 {
    faults.iter().map(|f| f["at_ms"].as_u64().unwrap_or(0) + f["heal_after_ms"].as_u64().unwrap_or(0)).max().unwrap_or(0)
}

/// Helper: poll a stream-like handle with next() — re-exported for scenario code.
pub async fn next_of<S: futures::Stream + Unpin>(s: &mut S) -> Option<S::Item> {
    s.next().await
}

pub type Counter = BTreeMap<String, u64>;
