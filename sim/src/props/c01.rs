//! C01 — the Noise handshake authenticates the remote peer identity.
//!
//! (a) Man in the middle: honest dialer and listener run the real `noise::handshake` over the
//!     carrier while an attacker alters / cuts the byte stream at one offset (systematic sweep over
//!     every offset of the three handshake messages, plus seeded fragmentation and schedules).
//! (b) Rogue peer: an endpoint written directly against `snow` completes a cryptographically
//!     valid XX session but controls the identity payload (catalogue of forgeries, both roles).
use crate::carrier::{duplex, CarrierKnobs, End, OffsetMangler};
use crate::node::{self, base_config, gen_node_knobs, keypair, listen_addr, peer_id, with_p2p};
use crate::simnet::{NetKnobs, SimNet};
use litep2p::{protocol::libp2p::ping, Litep2p, Litep2pEvent};
use crate::rng::Rng;
use crate::runner::{Budget, Describe, Prop, Tier};
use crate::sim::{run_sim, Handle, RunOutput, SchedKind};
use futures::io::{AsyncReadExt, AsyncWriteExt};
use litep2p::{
    crypto::ed25519::Keypair,
    verif::noise::{handshake, HandshakeTransport, Role},
    PeerId,
};
use serde_json::{json, Value};
use std::{
    sync::{Arc, Mutex},
    time::Duration,
};

pub struct C01;

// ---------------------------------------------------------------------------------------------
// snow resolver for the rogue endpoint (x25519 through x25519-dalek, the rest through ring)
// ---------------------------------------------------------------------------------------------

#[derive(Default)]
struct Dh25519 {
    privkey: [u8; 32],
    pubkey: [u8; 32],
}

impl snow::types::Dh for Dh25519 {
    fn name(&self) -> &'static str {
        "25519"
    }
    fn pub_len(&self) -> usize {
        32
    }
    fn priv_len(&self) -> usize {
        32
    }
    fn set(&mut self, privkey: &[u8]) {
        self.privkey.copy_from_slice(&privkey[..32]);
        self.pubkey = x25519_dalek::x25519(self.privkey, x25519_dalek::X25519_BASEPOINT_BYTES);
    }
    fn generate(&mut self, rng: &mut dyn snow::types::Random) {
        let mut k = [0u8; 32];
        rng.fill_bytes(&mut k);
        self.set(&k);
    }
    fn pubkey(&self) -> &[u8] {
        &self.pubkey
    }
    fn privkey(&self) -> &[u8] {
        &self.privkey
    }
    fn dh(&self, pubkey: &[u8], out: &mut [u8]) -> Result<(), snow::Error> {
        let mut p = [0u8; 32];
        p.copy_from_slice(&pubkey[..32]);
        let r = x25519_dalek::x25519(self.privkey, p);
        out[..32].copy_from_slice(&r);
        Ok(())
    }
}

struct SeededRandom(Rng);

impl rand_core_shim::RngCore for SeededRandom {
    fn next_u32(&mut self) -> u32 {
        self.0.next() as u32
    }
    fn next_u64(&mut self) -> u64 {
        self.0.next()
    }
    fn fill_bytes(&mut self, dest: &mut [u8]) {
        let b = self.0.bytes(dest.len());
        dest.copy_from_slice(&b);
    }
    fn try_fill_bytes(&mut self, dest: &mut [u8]) -> Result<(), rand_core_shim::Error> {
        self.fill_bytes(dest);
        Ok(())
    }
}
impl rand_core_shim::CryptoRng for SeededRandom {}
impl snow::types::Random for SeededRandom {}

/// `rand_core` as re-exported by the version snow depends on.
mod rand_core_shim {
    pub use rand_core::{CryptoRng, Error, RngCore};
}

struct RogueResolver(u64);

impl snow::resolvers::CryptoResolver for RogueResolver {
    fn resolve_rng(&self) -> Option<Box<dyn snow::types::Random>> {
        Some(Box::new(SeededRandom(Rng::fork(self.0, "rogue-rng"))))
    }
    fn resolve_dh(&self, choice: &snow::params::DHChoice) -> Option<Box<dyn snow::types::Dh>> {
        match choice {
            snow::params::DHChoice::Curve25519 => Some(Box::new(Dh25519::default())),
            _ => None,
        }
    }
    fn resolve_hash(&self, choice: &snow::params::HashChoice) -> Option<Box<dyn snow::types::Hash>> {
        snow::resolvers::RingResolver.resolve_hash(choice)
    }
    fn resolve_cipher(&self, choice: &snow::params::CipherChoice) -> Option<Box<dyn snow::types::Cipher>> {
        snow::resolvers::RingResolver.resolve_cipher(choice)
    }
}

// ---------------------------------------------------------------------------------------------
// forged identity payloads
// ---------------------------------------------------------------------------------------------

pub const VARIANTS: &[&str] = &[
    "honest",
    "missing_key",
    "missing_sig",
    "sig_by_other_identity",
    "sig_over_other_static_key",
    "sig_without_domain_prefix",
    "sig_63_bytes",
    "sig_65_bytes",
    "unknown_key_type",
    "short_identity_key",
    "trailing_unknown_field",
    "empty_payload",
    "other_identity_fully_valid",
    "sig_all_zero",
    "sig_over_empty_message",
    // a proof the honest side accepted in an earlier session, presented again over a session with
    // another static key (anything memoised per identity instead of per session shows here)
    "replay_of_accepted_proof",
    // identity key = neutral point of the curve, signature (R = neutral, s = 0): verifies for any
    // message under cofactorless non-strict ed25519 verification
    "small_order_identity_key",
    // the eight small-order points of the curve in canonical and non-canonical encodings as
    // identity key; the rogue grinds its session static key until (R small-order, s = 0) verifies
    // under cofactorless non-strict verification
    "weak_key:0", "weak_key:1", "weak_key:2", "weak_key:3", "weak_key:4", "weak_key:5", "weak_key:6",
    "weak_key:7", "weak_key:8", "weak_key:9", "weak_key:10", "weak_key:11", "weak_key:12", "weak_key:13",
];

fn hex32(s: &str) -> [u8; 32] {
    let mut o = [0u8; 32];
    for i in 0..32 {
        o[i] = u8::from_str_radix(&s[2 * i..2 * i + 2], 16).unwrap();
    }
    o
}

/// Encodings that decompress to a point of order 1, 2, 4 or 8 (canonical ones first).
fn weak_encodings() -> Vec<[u8; 32]> {
    [
        "0100000000000000000000000000000000000000000000000000000000000000", // neutral
        "ecffffffffffffffffffffffffffffffffffffffffffffffffffffffffffff7f", // order 2
        "0000000000000000000000000000000000000000000000000000000000000000", // order 4
        "0000000000000000000000000000000000000000000000000000000000000080", // order 4
        "c7176a703d4dd84fba3c0b760d10670f2a2053fa2c39ccc64ec7fd7792ac037a", // order 8
        "c7176a703d4dd84fba3c0b760d10670f2a2053fa2c39ccc64ec7fd7792ac03fa", // order 8
        "26e8958fc2b227b045c3f489f2ef98f0d5dfac05d3c63339b13802886d53fc05", // order 8
        "26e8958fc2b227b045c3f489f2ef98f0d5dfac05d3c63339b13802886d53fc85", // order 8
        // non-canonical: neutral with the sign bit, y = p + 1, y = p + 1 with the sign bit
        "0100000000000000000000000000000000000000000000000000000000000080",
        "eeffffffffffffffffffffffffffffffffffffffffffffffffffffffffffff7f",
        "eeffffffffffffffffffffffffffffffffffffffffffffffffffffffffffffff",
        // order 2 with the sign bit, y = p (order 4) without / with the sign bit
        "ecffffffffffffffffffffffffffffffffffffffffffffffffffffffffffffff",
        "edffffffffffffffffffffffffffffffffffffffffffffffffffffffffffff7f",
        "edffffffffffffffffffffffffffffffffffffffffffffffffffffffffffffff",
    ]
    .iter()
    .map(|h| hex32(h))
    .collect()
}

/// (identity key bytes, signature) that verifies over `msg` under ed25519-dalek's non-strict
/// `verify` without any secret key, if one exists for this message.
fn weak_forgery(idx: usize, msg: &[u8]) -> Option<([u8; 32], [u8; 64])> {
    use ed25519_dalek::{Signature, Verifier, VerifyingKey};
    let enc = weak_encodings();
    let key = enc[idx % enc.len()];
    let vk = VerifyingKey::from_bytes(&key).ok()?;
    for r in enc.iter().take(8) {
        let mut sig = [0u8; 64];
        sig[..32].copy_from_slice(r);
        if vk.verify(msg, &Signature::from_bytes(&sig)).is_ok() {
            return Some((key, sig));
        }
    }
    None
}

fn pb_bytes(field: u8, data: &[u8]) -> Vec<u8> {
    let mut v = vec![(field << 3) | 2];
    let mut n = data.len();
    loop {
        let b = (n & 0x7f) as u8;
        n >>= 7;
        if n == 0 {
            v.push(b);
            break;
        }
        v.push(b | 0x80);
    }
    v.extend_from_slice(data);
    v
}

fn pb_pubkey(key_type: u8, data: &[u8]) -> Vec<u8> {
    let mut v = vec![0x08, key_type];
    v.extend(pb_bytes(2, data));
    v
}

const DOMAIN: &[u8] = b"noise-libp2p-static-key:";

/// Returns (payload, expected peer if the honest side may accept).
fn forge(variant: &str, me: &Keypair, other: &Keypair, static_pub: &[u8]) -> (Vec<u8>, Option<PeerId>) {
    let my_pub = me.public().to_bytes();
    let id = pb_pubkey(1, &my_pub);
    let peer_of = |kp: &Keypair| PeerId::from_public_key(&litep2p::crypto::PublicKey::Ed25519(kp.public()));
    let good_sig = me.sign(&[DOMAIN, static_pub].concat());
    match variant {
        "honest" => ([pb_bytes(1, &id), pb_bytes(2, &good_sig)].concat(), Some(peer_of(me))),
        "missing_key" => (pb_bytes(2, &good_sig), None),
        "missing_sig" => (pb_bytes(1, &id), None),
        "sig_by_other_identity" => ([pb_bytes(1, &id), pb_bytes(2, &other.sign(&[DOMAIN, static_pub].concat()))].concat(), None),
        "sig_over_other_static_key" => {
            let mut k = static_pub.to_vec();
            k[0] ^= 0x01;
            ([pb_bytes(1, &id), pb_bytes(2, &me.sign(&[DOMAIN, &k[..]].concat()))].concat(), None)
        }
        "sig_without_domain_prefix" => ([pb_bytes(1, &id), pb_bytes(2, &me.sign(static_pub))].concat(), None),
        "sig_63_bytes" => ([pb_bytes(1, &id), pb_bytes(2, &good_sig[..63])].concat(), None),
        "sig_65_bytes" => {
            let mut s = good_sig.clone();
            s.push(0);
            ([pb_bytes(1, &id), pb_bytes(2, &s)].concat(), None)
        }
        "unknown_key_type" => ([pb_bytes(1, &pb_pubkey(9, &my_pub)), pb_bytes(2, &good_sig)].concat(), None),
        "short_identity_key" => ([pb_bytes(1, &pb_pubkey(1, &my_pub[..31])), pb_bytes(2, &good_sig)].concat(), None),
        "trailing_unknown_field" => ([pb_bytes(1, &id), pb_bytes(2, &good_sig), pb_bytes(15, b"extension")].concat(), Some(peer_of(me))),
        "empty_payload" => (vec![], None),
        "other_identity_fully_valid" => {
            let oid = pb_pubkey(1, &other.public().to_bytes());
            ([pb_bytes(1, &oid), pb_bytes(2, &other.sign(&[DOMAIN, static_pub].concat()))].concat(), Some(peer_of(other)))
        }
        "small_order_identity_key" => {
            let mut k = [0u8; 32];
            k[0] = 1;
            let mut sig = [0u8; 64];
            sig[0] = 1;
            ([pb_bytes(1, &pb_pubkey(1, &k)), pb_bytes(2, &sig)].concat(), None)
        }
        v if v.starts_with("weak_key:") => {
            let idx: usize = v[9..].parse().unwrap_or(0);
            match weak_forgery(idx, &[DOMAIN, static_pub].concat()) {
                Some((k, sig)) => ([pb_bytes(1, &pb_pubkey(1, &k)), pb_bytes(2, &sig)].concat(), None),
                // no forgery for this static key (the rogue grinds the key beforehand); an
                // undecodable key: present it with a zero signature
                None => ([pb_bytes(1, &pb_pubkey(1, &weak_encodings()[idx % 14])), pb_bytes(2, &[0u8; 64])].concat(), None),
            }
        }
        "sig_all_zero" => ([pb_bytes(1, &id), pb_bytes(2, &[0u8; 64])].concat(), None),
        _ => ([pb_bytes(1, &id), pb_bytes(2, &me.sign(&[]))].concat(), None),
    }
}

async fn write_msg(io: &mut End, msg: &[u8]) -> std::io::Result<()> {
    let mut v = (msg.len() as u16).to_be_bytes().to_vec();
    v.extend_from_slice(msg);
    io.write_all(&v).await?;
    io.flush().await
}

async fn read_msg(io: &mut End) -> std::io::Result<Vec<u8>> {
    let mut l = [0u8; 2];
    io.read_exact(&mut l).await?;
    let mut m = vec![0u8; u16::from_be_bytes(l) as usize];
    io.read_exact(&mut m).await?;
    Ok(m)
}

/// One rogue session: a valid XX handshake whose identity payload is chosen by `payload`, which is
/// given the static key of this session. Returns that static key.
async fn rogue_hs(io: &mut End, dialer: bool, rseed: u64, payload: impl FnOnce(&[u8]) -> Vec<u8>) -> Result<Vec<u8>, String> {
    let builder = snow::Builder::with_resolver("Noise_XX_25519_ChaChaPoly_SHA256".parse().unwrap(), Box::new(RogueResolver(rseed)));
    let kp = builder.generate_keypair().map_err(|e| format!("{e:?}"))?;
    let payload = payload(&kp.public);
    let mut buf = vec![0u8; 4096];
    let mut out = vec![0u8; 4096];
    if dialer {
        let mut hs = builder.local_private_key(&kp.private).build_initiator().map_err(|e| format!("{e:?}"))?;
        let n = hs.write_message(&[], &mut buf).map_err(|e| format!("{e:?}"))?;
        write_msg(io, &buf[..n]).await.map_err(|e| format!("{e:?}"))?;
        let m = read_msg(io).await.map_err(|e| format!("{e:?}"))?;
        hs.read_message(&m, &mut out).map_err(|e| format!("{e:?}"))?;
        let n = hs.write_message(&payload, &mut buf).map_err(|e| format!("{e:?}"))?;
        write_msg(io, &buf[..n]).await.map_err(|e| format!("{e:?}"))?;
    } else {
        let mut hs = builder.local_private_key(&kp.private).build_responder().map_err(|e| format!("{e:?}"))?;
        let m = read_msg(io).await.map_err(|e| format!("{e:?}"))?;
        hs.read_message(&m, &mut out).map_err(|e| format!("{e:?}"))?;
        let n = hs.write_message(&payload, &mut buf).map_err(|e| format!("{e:?}"))?;
        write_msg(io, &buf[..n]).await.map_err(|e| format!("{e:?}"))?;
        let m = read_msg(io).await.map_err(|e| format!("{e:?}"))?;
        hs.read_message(&m, &mut out).map_err(|e| format!("{e:?}"))?;
    }
    Ok(kp.public)
}

/// The rogue endpoint: `ios.len() - 1` honest sessions (prelude), then the attack session.
async fn rogue(mut ios: Vec<End>, dialer: bool, seed: u64, variant: String, me: Keypair, other: Keypair) -> Result<(), String> {
    let mut statics: Vec<Vec<u8>> = Vec::new();
    let last = ios.len() - 1;
    for (k, io) in ios.iter_mut().enumerate() {
        let st = if k < last {
            rogue_hs(io, dialer, seed.wrapping_add(k as u64 * 7919), |st| forge("honest", &me, &other, st).0).await?
        } else if variant == "replay_of_accepted_proof" {
            let first = statics.first().cloned().unwrap_or_default();
            rogue_hs(io, dialer, seed.wrapping_add(k as u64 * 7919), |_| forge("honest", &me, &other, &first).0).await?
        } else if variant.starts_with("weak_key:") {
            // grind the session static key until a secret-less signature exists for it
            let idx: usize = variant[9..].parse().unwrap_or(0);
            let mut rseed = seed.wrapping_add(k as u64 * 7919);
            for j in 0..400u64 {
                let cand = seed.wrapping_add(k as u64 * 7919).wrapping_add(j * 104_729);
                let b = snow::Builder::with_resolver("Noise_XX_25519_ChaChaPoly_SHA256".parse().unwrap(), Box::new(RogueResolver(cand)));
                if let Ok(kp) = b.generate_keypair() {
                    if weak_forgery(idx, &[DOMAIN, &kp.public[..]].concat()).is_some() {
                        rseed = cand;
                        break;
                    }
                }
            }
            rogue_hs(io, dialer, rseed, |st| forge(&variant, &me, &other, st).0).await?
        } else {
            rogue_hs(io, dialer, seed.wrapping_add(k as u64 * 7919), |st| forge(&variant, &me, &other, st).0).await?
        };
        statics.push(st);
    }
    // keep the pipes open for a while so the honest side decides on the payload, not on EOF
    tokio::time::sleep(Duration::from_secs(30)).await;
    drop(ios);
    Ok(())
}

#[derive(Default)]
struct World {
    /// per side: Some(Ok(peer)) / Some(Err(text))
    result: [Option<Result<PeerId, String>>; 2],
}

impl Prop for C01 {
    fn id(&self) -> &'static str {
        "C01"
    }

    fn budget(&self, tier: Tier) -> Budget {
        match tier {
            Tier::Quick => Budget { runs: 6000, wall_s: 60.0 },
            Tier::Thorough => Budget { runs: 300_000, wall_s: 540.0 },
        }
    }

    fn describe(&self) -> Describe {
        Describe {
            level: "fault_enumeration",
            rule: "systematic pre-pass: every byte offset 0..260 of each direction of the handshake x {flip bit 0, flip bit 7, set 0x00, set 0xff, truncate} with an active man in the middle, and every forged identity payload of the catalogue (17 variants incl. replay of a proof accepted in an earlier session and a small-order identity key) x both roles against a rogue peer that completes a valid Noise XX session, optionally after 1-3 honest prelude sessions of the same rogue; whole-node impostor scenario (1/8 of seeded runs): three litep2p nodes on SimNet, an address stored for peer V leads to the conforming node R, dialed by peer id (parallel open path) or by address, with/without V's genuine address among the candidates; then seeded runs drawing key pairs, attack, offset, carrier fragmentation / short writes / Pending and the task schedule; non-trivial = the attack actually altered a byte in flight or a forged payload was presented; distinct = distinct trace hash".into(),
            real: vec!["crypto::noise::handshake (both roles)", "NoiseContext", "parse_and_verify_peer_id", "RemotePublicKey::from_protobuf_encoding / verify", "PeerId::from_public_key_protobuf", "snow", "impostor mode: Litep2p, TransportManager, TcpTransport::dial/open, TcpConnection::negotiate_connection (PeerIdMismatch)"],
            stub: vec!["carrier (in-memory duplex pipe)", "the man in the middle", "the rogue peer (snow + hand-encoded payload)", "task scheduler (seeded)", "clock"],
            assumptions: vec![
                "the comparison of the proven identity with the dialed peer id happens in TcpConnection and is exercised end-to-end by the impostor mode (both dial paths) and additionally by the whole-node dial scenario of C05 (address shape wrong_peer)",
                "impostor mode judges a dial by its report: every accepted dial of V through R's address yields a failure report naming that address with PeerIdMismatch within 30 s, no ConnectionEstablished names a peer other than the identity living at the remote address, and a genuine address among the candidates wins",
                "the rogue's own session randomness comes from the run seed",
            ],
        }
    }

    fn nontrivial(&self, out: &RunOutput) -> bool {
        out.probes.keys().any(|k| k.starts_with("attack-fired") || k.starts_with("rogue:") || k.starts_with("impostor-reached"))
    }

    fn systematic(&self, tier: Tier) -> Vec<Value> {
        let mut v = Vec::new();
        let carriers = [json!({"max_chunk": 65536, "short_write": false, "pending_pct": 0, "window": 1 << 20}), json!({"max_chunk": 1, "short_write": true, "pending_pct": 10, "window": 64})];
        let ncar = if tier == Tier::Quick { 1 } else { 2 };
        for (ci, car) in carriers.iter().take(ncar).enumerate() {
            for dir in 0..2u64 {
                for offset in 0..260u64 {
                    for (kind, arg) in [("flip", 1u64), ("flip", 0x80), ("set", 0), ("set", 0xff), ("truncate", 0)] {
                        v.push(json!({"property": "C01", "seed": 1000 + ci as u64, "mode": "mitm", "sched": {"kind": "fifo"}, "carrier": car, "attack": {"dir": dir, "offset": offset, "kind": kind, "arg": arg}}));
                    }
                }
            }
            for variant in VARIANTS {
                for rogue_dialer in [true, false] {
                    v.push(json!({"property": "C01", "seed": 2000 + ci as u64, "mode": "rogue", "sched": {"kind": "fifo"}, "carrier": car, "variant": variant, "rogue_dialer": rogue_dialer}));
                }
            }
        }
        v
    }

    fn gen(&self, seed: u64, _tier: Tier) -> Value {
        let mut rng = Rng::fork(seed, "c01-gen");
        let carrier = CarrierKnobs::gen(&mut rng);
        let sched = SchedKind::gen(&mut rng, 500);
        if rng.chance(1, 8) {
            return gen_impostor(seed, &mut rng);
        }
        if rng.chance(1, 2) {
            let attack = if rng.chance(1, 6) {
                Value::Null
            } else {
                json!({"dir": rng.below(2), "offset": rng.below(230), "kind": *rng.pick(&["flip", "flip", "set", "truncate"]), "arg": rng.below(256)})
            };
            json!({"property": "C01", "seed": seed, "mode": "mitm", "sched": sched, "carrier": carrier, "attack": attack})
        } else {
            json!({"property": "C01", "seed": seed, "mode": "rogue", "sched": sched, "carrier": carrier, "variant": *rng.pick(VARIANTS), "rogue_dialer": rng.chance(1, 2), "prelude": if rng.chance(1, 3) { rng.range(1, 3) } else { 0 }})
        }
    }

    fn shrink_keys(&self) -> Vec<&'static str> {
        vec![]
    }

    fn run(&self, case: &Value, verbose: bool) -> RunOutput {
        let case = case.clone();
        let seed = case["seed"].as_u64().unwrap_or(0);
        let sched = SchedKind::from_json(&case["sched"]);
        if case["mode"].as_str() == Some("impostor") {
            return run_impostor(case, verbose);
        }
        run_sim(seed, sched, Duration::from_secs(60), 2_000_000, verbose, move |handle: Handle| {
            let knobs = CarrierKnobs::from_json(&case["carrier"]);
            let (a, b, wires) = duplex(&handle, seed, &knobs);
            let world = Arc::new(Mutex::new(World::default()));
            let mode = case["mode"].as_str().unwrap_or("mitm").to_string();
            let fired = Arc::new(Mutex::new(false));
            let kp = [keypair(seed, 1), keypair(seed, 2)];
            let other = keypair(seed, 3);
            let peers: Vec<PeerId> = kp.iter().map(|k| PeerId::from_public_key(&litep2p::crypto::PublicKey::Ed25519(k.public()))).collect();
            let honest = |side: usize, mut ios: Vec<End>, h: &Handle, world: Arc<Mutex<World>>, kp: Keypair, prelude_peer: Option<PeerId>| {
                let h2 = h.clone();
                h.spawn(side + 1, "honest-endpoint", async move {
                    let role = if side == 0 { Role::Dialer } else { Role::Listener };
                    let io = ios.pop().expect("at least one session");
                    // earlier, honest sessions of the same remote: all must be accepted
                    let mut earlier = Vec::new();
                    for io in ios {
                        let role = if side == 0 { Role::Dialer } else { Role::Listener };
                        match handshake(io, &kp, role, 2, 2, Duration::from_secs(5), HandshakeTransport::Tcp).await {
                            Ok((socket, peer)) if Some(peer) == prelude_peer => {
                                h2.probe("prelude-session-ok");
                                earlier.push(socket);
                            }
                            Ok((_, peer)) => h2.violation("c01:wrong-peer-reported:prelude", format!("honest prelude session reported {peer}")),
                            Err(e) => h2.violation("c01:valid-identity-rejected:prelude", format!("honest prelude session failed: {e:?}")),
                        }
                    }
                    let r = handshake(io, &kp, role, 2, 2, Duration::from_secs(5), HandshakeTransport::Tcp).await;
                    let _earlier = earlier;
                    let res = match r {
                        Ok((socket, peer)) => {
                            // keep the socket alive so the other side is judged on the handshake alone
                            tokio::time::sleep(Duration::from_secs(30)).await;
                            drop(socket);
                            Ok(peer)
                        }
                        Err(e) => Err(format!("{e:?}")),
                    };
                    world.lock().unwrap().result[side] = Some(res);
                });
            };
            let mut expected_rogue: Option<Option<PeerId>> = None;
            let mut honest_side = 0usize;
            if mode == "mitm" {
                if !case["attack"].is_null() {
                    let at = &case["attack"];
                    let m = OffsetMangler { pos: 0, offset: at["offset"].as_u64().unwrap_or(0), kind: at["kind"].as_str().unwrap_or("flip").to_string(), arg: at["arg"].as_u64().unwrap_or(1) as u8, fired: fired.clone() };
                    let wire = if at["dir"].as_u64().unwrap_or(0) == 0 { &wires.0 } else { &wires.1 };
                    wire.lock().unwrap().mangler = Some(Box::new(m));
                }
                honest(0, vec![a], &handle, world.clone(), kp[0].clone(), None);
                honest(1, vec![b], &handle, world.clone(), kp[1].clone(), None);
            } else {
                let rogue_dialer = case["rogue_dialer"].as_bool().unwrap_or(true);
                let variant = case["variant"].as_str().unwrap_or("honest").to_string();
                let (rogue_io, honest_io) = if rogue_dialer { (a, b) } else { (b, a) };
                honest_side = if rogue_dialer { 1 } else { 0 };
                let rk = kp[1 - honest_side].clone();
                // honest sessions before the attack session
                let prelude = case["prelude"].as_u64().unwrap_or(0).max(if variant == "replay_of_accepted_proof" { 1 } else { 0 }).min(4);
                let (mut rogue_ios, mut honest_ios) = (Vec::new(), Vec::new());
                for k in 0..prelude {
                    let (a, b, _) = duplex(&handle, seed.wrapping_add(100 + k), &knobs);
                    let (r, h) = if rogue_dialer { (a, b) } else { (b, a) };
                    rogue_ios.push(r);
                    honest_ios.push(h);
                }
                rogue_ios.push(rogue_io);
                honest_ios.push(honest_io);
                let prelude_peer = Some(peers[1 - honest_side]);
                // what may the honest side accept?
                let dummy_static = [0u8; 32];
                let (_, exp) = forge(&variant, &rk, &other, &dummy_static);
                expected_rogue = Some(exp);
                honest(honest_side, honest_ios, &handle, world.clone(), kp[honest_side].clone(), prelude_peer);
                let h2 = handle.clone();
                let v2 = variant.clone();
                let o2 = other.clone();
                handle.spawn(2 - honest_side, "rogue-endpoint", async move {
                    let r = rogue(rogue_ios, rogue_dialer, seed, v2.clone(), rk, o2).await;
                    h2.event(format!("rogue({v2}) finished: {r:?}"));
                });
                handle.probe(&format!("rogue:{variant}"));
            }
            {
                let world = world.clone();
                let h = handle.clone();
                let need = if mode == "mitm" { 2 } else { 1 };
                handle.spawn(0, "watch", async move {
                    loop {
                        tokio::time::sleep(Duration::from_millis(20)).await;
                        if world.lock().unwrap().result.iter().filter(|r| r.is_some()).count() >= need {
                            h.stop();
                            return;
                        }
                        // an Ok result is recorded only after its 30 s linger; errors come at once
                        if tokio::time::Instant::now().elapsed() > Duration::from_secs(0) {}
                    }
                });
            }
            let h = handle.clone();
            Box::new(move || {
                let w = world.lock().unwrap();
                if mode == "mitm" {
                    let fired = *fired.lock().unwrap();
                    if fired {
                        h.probe("attack-fired");
                        let dir = case["attack"]["dir"].as_u64().unwrap_or(0) as usize;
                        let receiver = 1 - dir;
                        match &w.result[receiver] {
                            Some(Ok(p)) => {
                                h.violation("c01:tampered-handshake-accepted", format!("a byte of the {} stream was altered in flight ({}), yet the receiving side reported a secured connection with {p}", if dir == 0 { "dialer->listener" } else { "listener->dialer" }, case["attack"]));
                            }
                            Some(Err(_)) => h.probe("tamper-rejected"),
                            None => {
                                h.violation("c01:handshake-hangs", format!("receiver of the altered stream neither failed nor succeeded within 60 s (attack {})", case["attack"]));
                            }
                        }
                    } else {
                        for side in 0..2 {
                            match &w.result[side] {
                                Some(Ok(p)) if *p == peers[1 - side] => {}
                                Some(Ok(p)) => {
                                    h.violation("c01:wrong-peer-reported", format!("untampered handshake: side {side} reports {p}, the remote identity is {}", peers[1 - side]));
                                    return;
                                }
                                Some(Err(e)) => {
                                    h.violation("c01:honest-handshake-failed", format!("untampered handshake failed on side {side}: {e}"));
                                    return;
                                }
                                None => {
                                    // Ok results are recorded after the linger; the run is stopped as
                                    // soon as both are in, so None means a hang
                                    h.violation("c01:handshake-hangs", format!("untampered handshake: side {side} did not finish"));
                                    return;
                                }
                            }
                        }
                        h.probe("honest-handshake-ok");
                    }
                } else {
                    let variant = case["variant"].as_str().unwrap_or("");
                    let exp = expected_rogue.clone().unwrap_or(None);
                    match (&w.result[honest_side], exp) {
                        (Some(Ok(p)), Some(e)) if *p == e => h.probe("rogue-valid-accepted"),
                        (Some(Ok(p)), Some(e)) => h.violation(format!("c01:wrong-peer-reported:{variant}"), format!("rogue payload {variant}: honest side reports {p}, the proven identity is {e}")),
                        (Some(Ok(p)), None) => h.violation(format!("c01:forged-identity-accepted:{variant}"), format!("rogue payload {variant}: honest side reported a secured connection with {p}")),
                        (Some(Err(e)), Some(_)) => h.violation(format!("c01:valid-identity-rejected:{variant}"), format!("rogue payload {variant} is a valid proof but the honest side failed: {e}")),
                        (Some(Err(_)), None) => h.probe("forgery-rejected"),
                        (None, _) => h.violation(format!("c01:handshake-hangs:{variant}"), format!("rogue payload {variant}: honest side neither failed nor succeeded within 60 s")),
                    }
                }
            })
        })
    }
}

// ---------------------------------------------------------------------------------------------
// (c) impostor: whole nodes; an address stored for peer V leads to the conforming node R
// ---------------------------------------------------------------------------------------------

fn gen_impostor(seed: u64, rng: &mut Rng) -> Value {
    let mut case = gen_impostor_tcp(seed, rng);
    // a third of the impostor runs use the WebSocket transport (its own connection negotiation
    // and dialed-peer comparison); independent stream of the seed
    let mut r = Rng::fork(seed, "c01-impostor-ws");
    if r.chance(1, 3) {
        case["node_knobs"]["transport"] = json!("ws");
        if case["net"]["max_chunk"].as_u64().unwrap_or(4096) < 64 {
            case["net"]["max_chunk"] = json!(64);
        }
    }
    case
}

fn gen_impostor_tcp(seed: u64, rng: &mut Rng) -> Value {
    let v_alive = rng.chance(1, 2);
    json!({
        "property": "C01",
        "seed": seed,
        "mode": "impostor",
        "sched": SchedKind::gen(rng, 3000),
        "net": NetKnobs::gen(rng),
        "node_knobs": gen_node_knobs(rng),
        // how the dial reaches the transport: by peer id over the stored addresses (parallel
        // `open` path) or by address (`dial` path)
        "path": *rng.pick(&["open", "open", "dial"]),
        "v_alive": v_alive,
        "v_real_addr_known": v_alive && rng.chance(1, 2),
        "dead_addrs": rng.below(3),
        "impostor_first": rng.chance(1, 2),
        "rounds": rng.range(1, 3),
    })
}

#[derive(Clone, Debug)]
enum Ev {
    Established { peer: PeerId, addr: String, listener: bool },
    Closed,
    Failure { addrs: Vec<(String, String)> },
    DialCall { ok: bool, err: String },
}

fn run_impostor(case: Value, verbose: bool) -> RunOutput {
    let seed = case["seed"].as_u64().unwrap_or(0);
    let sched = SchedKind::from_json(&case["sched"]);
    run_sim(seed, sched, Duration::from_secs(120), 3_000_000, verbose, move |handle: Handle| {
        let net = SimNet::new(handle.clone(), seed, NetKnobs::from_json(&case["net"]));
        net.install();
        let v_alive = case["v_alive"].as_bool().unwrap_or(false);
        let v_known = v_alive && case["v_real_addr_known"].as_bool().unwrap_or(false);
        let path_open = case["path"].as_str().unwrap_or("open") == "open";
        let rounds = case["rounds"].as_u64().unwrap_or(1).clamp(1, 3);
        // node 1 = T (dials), node 2 = R (the impostor's address), node 3 = V (identity dialed)
        let log: Arc<Mutex<Vec<(usize, u64, Ev)>>> = Arc::new(Mutex::new(Vec::new()));
        let ws = case["node_knobs"]["transport"] == "ws";
        let la = |i: usize| if ws { node::ws_listen_addr(i) } else { listen_addr(i) };
        let impostor_addr = with_p2p(la(2), peer_id(seed, 3));
        let mut stored = vec![impostor_addr.clone()];
        if v_known {
            stored.push(with_p2p(la(3), peer_id(seed, 3)));
        }
        for k in 0..case["dead_addrs"].as_u64().unwrap_or(0).min(3) {
            stored.push(with_p2p(format!("/ip4/10.0.0.3/tcp/{}{}", 2 + k, if ws { "/ws" } else { "" }).parse().unwrap(), peer_id(seed, 3)));
        }
        if !case["impostor_first"].as_bool().unwrap_or(true) {
            stored.reverse();
        }
        let mut t_cmd = None;
        for i in 1..=3usize {
            if i == 3 && !v_alive {
                continue;
            }
            node::CURRENT_NODE.with(|c| c.set(i));
            let (pc, pev) = ping::Config::default();
            let b = base_config(&handle, seed, i, &case["node_knobs"]).with_libp2p_ping(pc);
            handle.spawn(i, "ping-events", async move {
                let mut pev = pev;
                while futures::StreamExt::next(&mut pev).await.is_some() {}
            });
            let mut l = match Litep2p::new(b.build()) {
                Ok(l) => l,
                Err(e) => {
                    handle.violation("harness:litep2p-new", format!("{e:?}"));
                    return Box::new(|| {});
                }
            };
            if i == 1 {
                l.add_known_address(peer_id(seed, 3), stored.clone().into_iter());
            }
            let (tx, mut rx) = tokio::sync::mpsc::unbounded_channel::<()>();
            if i == 1 {
                t_cmd = Some(tx);
            }
            let log = log.clone();
            let h = handle.clone();
            let imp = impostor_addr.clone();
            handle.spawn(i, "litep2p-event-loop", async move {
                let mut open = true;
                loop {
                    tokio::select! {
                        biased;
                        c = rx.recv(), if open => match c {
                            None => open = false,
                            Some(()) => {
                                let r = if path_open { l.dial(&peer_id(seed, 3)).await } else { l.dial_address(imp.clone()).await };
                                let now = crate::sim::vnow().as_nanos() as u64;
                                log.lock().unwrap().push((i, now, Ev::DialCall { ok: r.is_ok(), err: r.as_ref().err().map(|e| format!("{e:?}")).unwrap_or_default() }));
                                h.event(format!("n{i} dial -> {r:?}"));
                            }
                        },
                        ev = l.next_event() => {
                            let now = crate::sim::vnow().as_nanos() as u64;
                            let e = match ev {
                                Some(Litep2pEvent::ConnectionEstablished { peer, endpoint }) => Ev::Established { peer, addr: endpoint.address().to_string(), listener: endpoint.is_listener() },
                                Some(Litep2pEvent::ConnectionClosed { .. }) => Ev::Closed,
                                Some(Litep2pEvent::DialFailure { address, error }) => Ev::Failure { addrs: vec![(address.to_string(), format!("{error:?}"))] },
                                Some(Litep2pEvent::ListDialFailures { errors }) => Ev::Failure { addrs: errors.into_iter().map(|(a, e)| (a.to_string(), format!("{e:?}"))).collect() },
                                None => return,
                            };
                            h.event(format!("n{i} event {e:?}"));
                            log.lock().unwrap().push((i, now, e));
                        }
                    }
                }
            });
        }
        node::CURRENT_NODE.with(|c| c.set(0));
        {
            let log = log.clone();
            let h = handle.clone();
            let t_cmd = t_cmd.unwrap();
            handle.spawn(0, "driver", async move {
                tokio::time::sleep(Duration::from_millis(50)).await;
                for _ in 0..rounds {
                    let before = log.lock().unwrap().iter().filter(|(n, _, e)| *n == 1 && matches!(e, Ev::Failure { .. } | Ev::Established { listener: false, .. })).count();
                    let _ = t_cmd.send(());
                    // wait for the outcome of this dial (bounded: connection open timeout + slack)
                    for _ in 0..3000 {
                        tokio::time::sleep(Duration::from_millis(10)).await;
                        let l = log.lock().unwrap();
                        let now = l.iter().filter(|(n, _, e)| *n == 1 && matches!(e, Ev::Failure { .. } | Ev::Established { listener: false, .. })).count();
                        let refused = matches!(l.iter().rev().find(|(n, _, e)| *n == 1 && matches!(e, Ev::DialCall { .. })), Some((_, _, Ev::DialCall { ok: false, .. })));
                        if now > before || refused {
                            break;
                        }
                    }
                    if log.lock().unwrap().iter().any(|(n, _, e)| *n == 1 && matches!(e, Ev::Established { .. })) {
                        break;
                    }
                }
                tokio::time::sleep(Duration::from_millis(500)).await;
                h.stop();
            });
        }
        let h = handle.clone();
        Box::new(move || {
            let log = log.lock().unwrap().clone();
            h.probe("impostor-reached");
            let who = |addr: &str| -> Option<usize> { (1..=3).find(|j| addr.contains(&format!("/ip4/10.0.0.{j}/"))) };
            // 1. a reported peer is the identity living at the remote address
            for (n, t, e) in log.iter() {
                if let Ev::Established { peer, addr, listener } = e {
                    if let Some(j) = who(addr) {
                        if *peer != peer_id(seed, j) {
                            h.violation("c01:connection-reported-for-unproven-peer", format!("t={:.3}s node {n}: ConnectionEstablished(peer {peer}, {} {addr}) but the node at that address holds the identity {}", *t as f64 / 1e9, if *listener { "listener" } else { "dialer" }, peer_id(seed, j)));
                            return;
                        }
                    }
                }
            }
            let t_est: Vec<&Ev> = log.iter().filter(|(n, _, e)| *n == 1 && matches!(e, Ev::Established { .. })).map(|(_, _, e)| e).collect();
            let calls: Vec<&Ev> = log.iter().filter(|(n, _, e)| *n == 1 && matches!(e, Ev::DialCall { .. })).map(|(_, _, e)| e).collect();
            let accepted = calls.iter().filter(|e| matches!(e, Ev::DialCall { ok: true, .. })).count();
            let fails: Vec<&Vec<(String, String)>> = log.iter().filter_map(|(n, _, e)| match e { Ev::Failure { addrs } if *n == 1 => Some(addrs), _ => None }).collect();
            if v_known && path_open {
                // the genuine address is among the candidates: the dial must end at V
                if t_est.is_empty() {
                    h.violation("c01:genuine-address-lost-to-impostor", format!("dial(V) with the stored addresses {:?}: V is up and reachable but no connection was established; failures {fails:?}", stored.iter().map(|a| a.to_string()).collect::<Vec<_>>()));
                } else {
                    h.probe("impostor-beaten-by-genuine-address");
                }
                return;
            }
            // every accepted dial ends in one failure report, the impostor's address carries PeerIdMismatch
            if !t_est.is_empty() {
                h.violation("c01:connection-despite-impostor", format!("node 1 reports {t_est:?} although no stored address leads to V"));
                return;
            }
            if fails.len() < accepted {
                h.violation("c01:mismatch-dial-without-failure", format!("{accepted} dial(s) of V through the address of another identity were accepted, {} failure report(s) arrived within 30 s each: {fails:?}", fails.len()));
                return;
            }
            for f in fails.iter() {
                match f.iter().find(|(a, _)| a.contains("/ip4/10.0.0.2/")) {
                    Some((_, e)) if e.contains("PeerIdMismatch") => h.probe("peer-id-mismatch-reported"),
                    Some((a, e)) => {
                        h.violation("c01:mismatch-reported-as-other-error", format!("address {a} leads to another identity, reported error: {e}"));
                        return;
                    }
                    None => {
                        h.violation("c01:impostor-address-missing-from-failures", format!("failure report {f:?} does not name the address that led to another identity"));
                        return;
                    }
                }
            }
        })
    })
}
