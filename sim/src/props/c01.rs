//! C01 — the Noise handshake authenticates the remote peer identity.
//!
//! (a) Man in the middle: honest dialer and listener run the real `noise::handshake` over the
//!     carrier while an attacker alters / cuts the byte stream at one offset (systematic sweep over
//!     every offset of the three handshake messages, plus seeded fragmentation and schedules).
//! (b) Rogue peer: an endpoint written directly against `snow` completes a cryptographically
//!     valid XX session but controls the identity payload (catalogue of forgeries, both roles).
use crate::carrier::{duplex, CarrierKnobs, End, OffsetMangler};
use crate::node::keypair;
use crate::rng::Rng;
use crate::runner::{Budget, Describe, Prop, Tier};
use crate::sim::{run_sim, Handle, RunOutput, SchedKind};
use futures::io::{AsyncReadExt, AsyncWriteExt};
use litep2p::{
    crypto::ed25519::Keypair,
    verif::noise::{handshake, HandshakeTransport, Role},
    PeerId,
};
use serde_json::{json, Value};
use std::{
    sync::{Arc, Mutex},
    time::Duration,
};

pub struct C01;

// ---------------------------------------------------------------------------------------------
// snow resolver for the rogue endpoint (x25519 through x25519-dalek, the rest through ring)
// ---------------------------------------------------------------------------------------------

#[derive(Default)]
struct Dh25519 {
    privkey: [u8; 32],
    pubkey: [u8; 32],
}

impl snow::types::Dh for Dh25519 {
    fn name(&self) -> &'static str {
        "25519"
    }
    fn pub_len(&self) -> usize {
        32
    }
    fn priv_len(&self) -> usize {
        32
    }
    fn set(&mut self, privkey: &[u8]) {
        self.privkey.copy_from_slice(&privkey[..32]);
        self.pubkey = x25519_dalek::x25519(self.privkey, x25519_dalek::X25519_BASEPOINT_BYTES);
    }
    fn generate(&mut self, rng: &mut dyn snow::types::Random) {
        let mut k = [0u8; 32];
        rng.fill_bytes(&mut k);
        self.set(&k);
    }
    fn pubkey(&self) -> &[u8] {
        &self.pubkey
    }
    fn privkey(&self) -> &[u8] {
        &self.privkey
    }
    fn dh(&self, pubkey: &[u8], out: &mut [u8]) -> Result<(), snow::Error> {
        let mut p = [0u8; 32];
        p.copy_from_slice(&pubkey[..32]);
        let r = x25519_dalek::x25519(self.privkey, p);
        out[..32].copy_from_slice(&r);
        Ok(())
    }
}

struct SeededRandom(Rng);

impl rand_core_shim::RngCore for SeededRandom {
    fn next_u32(&mut self) -> u32 {
        self.0.next() as u32
    }
    fn next_u64(&mut self) -> u64 {
        self.0.next()
    }
    fn fill_bytes(&mut self, dest: &mut [u8]) {
        let b = self.0.bytes(dest.len());
        dest.copy_from_slice(&b);
    }
    fn try_fill_bytes(&mut self, dest: &mut [u8]) -> Result<(), rand_core_shim::Error> {
        self.fill_bytes(dest);
        Ok(())
    }
}
impl rand_core_shim::CryptoRng for SeededRandom {}
impl snow::types::Random for SeededRandom {}

/// `rand_core` as re-exported by the version snow depends on.
mod rand_core_shim {
    pub use rand_core::{CryptoRng, Error, RngCore};
}

struct RogueResolver(u64);

impl snow::resolvers::CryptoResolver for RogueResolver {
    fn resolve_rng(&self) -> Option<Box<dyn snow::types::Random>> {
        Some(Box::new(SeededRandom(Rng::fork(self.0, "rogue-rng"))))
    }
    fn resolve_dh(&self, choice: &snow::params::DHChoice) -> Option<Box<dyn snow::types::Dh>> {
        match choice {
            snow::params::DHChoice::Curve25519 => Some(Box::new(Dh25519::default())),
            _ => None,
        }
    }
    fn resolve_hash(&self, choice: &snow::params::HashChoice) -> Option<Box<dyn snow::types::Hash>> {
        snow::resolvers::RingResolver.resolve_hash(choice)
    }
    fn resolve_cipher(&self, choice: &snow::params::CipherChoice) -> Option<Box<dyn snow::types::Cipher>> {
        snow::resolvers::RingResolver.resolve_cipher(choice)
    }
}

// ---------------------------------------------------------------------------------------------
// forged identity payloads
// ---------------------------------------------------------------------------------------------

pub const VARIANTS: &[&str] = &[
    "honest",
    "missing_key",
    "missing_sig",
    "sig_by_other_identity",
    "sig_over_other_static_key",
    "sig_without_domain_prefix",
    "sig_63_bytes",
    "sig_65_bytes",
    "unknown_key_type",
    "short_identity_key",
    "trailing_unknown_field",
    "empty_payload",
    "other_identity_fully_valid",
    "sig_all_zero",
    "sig_over_empty_message",
];

fn pb_bytes(field: u8, data: &[u8]) -> Vec<u8> {
    let mut v = vec![(field << 3) | 2];
    let mut n = data.len();
    loop {
        let b = (n & 0x7f) as u8;
        n >>= 7;
        if n == 0 {
            v.push(b);
            break;
        }
        v.push(b | 0x80);
    }
    v.extend_from_slice(data);
    v
}

fn pb_pubkey(key_type: u8, data: &[u8]) -> Vec<u8> {
    let mut v = vec![0x08, key_type];
    v.extend(pb_bytes(2, data));
    v
}

const DOMAIN: &[u8] = b"noise-libp2p-static-key:";

/// Returns (payload, expected peer if the honest side may accept).
fn forge(variant: &str, me: &Keypair, other: &Keypair, static_pub: &[u8]) -> (Vec<u8>, Option<PeerId>) {
    let my_pub = me.public().to_bytes();
    let id = pb_pubkey(1, &my_pub);
    let peer_of = |kp: &Keypair| PeerId::from_public_key(&litep2p::crypto::PublicKey::Ed25519(kp.public()));
    let good_sig = me.sign(&[DOMAIN, static_pub].concat());
    match variant {
        "honest" => ([pb_bytes(1, &id), pb_bytes(2, &good_sig)].concat(), Some(peer_of(me))),
        "missing_key" => (pb_bytes(2, &good_sig), None),
        "missing_sig" => (pb_bytes(1, &id), None),
        "sig_by_other_identity" => ([pb_bytes(1, &id), pb_bytes(2, &other.sign(&[DOMAIN, static_pub].concat()))].concat(), None),
        "sig_over_other_static_key" => {
            let mut k = static_pub.to_vec();
            k[0] ^= 0x01;
            ([pb_bytes(1, &id), pb_bytes(2, &me.sign(&[DOMAIN, &k[..]].concat()))].concat(), None)
        }
        "sig_without_domain_prefix" => ([pb_bytes(1, &id), pb_bytes(2, &me.sign(static_pub))].concat(), None),
        "sig_63_bytes" => ([pb_bytes(1, &id), pb_bytes(2, &good_sig[..63])].concat(), None),
        "sig_65_bytes" => {
            let mut s = good_sig.clone();
            s.push(0);
            ([pb_bytes(1, &id), pb_bytes(2, &s)].concat(), None)
        }
        "unknown_key_type" => ([pb_bytes(1, &pb_pubkey(9, &my_pub)), pb_bytes(2, &good_sig)].concat(), None),
        "short_identity_key" => ([pb_bytes(1, &pb_pubkey(1, &my_pub[..31])), pb_bytes(2, &good_sig)].concat(), None),
        "trailing_unknown_field" => ([pb_bytes(1, &id), pb_bytes(2, &good_sig), pb_bytes(15, b"extension")].concat(), Some(peer_of(me))),
        "empty_payload" => (vec![], None),
        "other_identity_fully_valid" => {
            let oid = pb_pubkey(1, &other.public().to_bytes());
            ([pb_bytes(1, &oid), pb_bytes(2, &other.sign(&[DOMAIN, static_pub].concat()))].concat(), Some(peer_of(other)))
        }
        "sig_all_zero" => ([pb_bytes(1, &id), pb_bytes(2, &[0u8; 64])].concat(), None),
        _ => ([pb_bytes(1, &id), pb_bytes(2, &me.sign(&[]))].concat(), None),
    }
}

async fn write_msg(io: &mut End, msg: &[u8]) -> std::io::Result<()> {
    let mut v = (msg.len() as u16).to_be_bytes().to_vec();
    v.extend_from_slice(msg);
    io.write_all(&v).await?;
    io.flush().await
}

async fn read_msg(io: &mut End) -> std::io::Result<Vec<u8>> {
    let mut l = [0u8; 2];
    io.read_exact(&mut l).await?;
    let mut m = vec![0u8; u16::from_be_bytes(l) as usize];
    io.read_exact(&mut m).await?;
    Ok(m)
}

/// The rogue endpoint: a valid XX session, attacker-chosen payload.
async fn rogue(mut io: End, dialer: bool, seed: u64, variant: String, me: Keypair, other: Keypair) -> Result<(), String> {
    let builder = snow::Builder::with_resolver("Noise_XX_25519_ChaChaPoly_SHA256".parse().unwrap(), Box::new(RogueResolver(seed)));
    let kp = builder.generate_keypair().map_err(|e| format!("{e:?}"))?;
    let (payload, _) = forge(&variant, &me, &other, &kp.public);
    let mut buf = vec![0u8; 4096];
    let mut out = vec![0u8; 4096];
    if dialer {
        let mut hs = builder.local_private_key(&kp.private).build_initiator().map_err(|e| format!("{e:?}"))?;
        let n = hs.write_message(&[], &mut buf).map_err(|e| format!("{e:?}"))?;
        write_msg(&mut io, &buf[..n]).await.map_err(|e| format!("{e:?}"))?;
        let m = read_msg(&mut io).await.map_err(|e| format!("{e:?}"))?;
        hs.read_message(&m, &mut out).map_err(|e| format!("{e:?}"))?;
        let n = hs.write_message(&payload, &mut buf).map_err(|e| format!("{e:?}"))?;
        write_msg(&mut io, &buf[..n]).await.map_err(|e| format!("{e:?}"))?;
    } else {
        let mut hs = builder.local_private_key(&kp.private).build_responder().map_err(|e| format!("{e:?}"))?;
        let m = read_msg(&mut io).await.map_err(|e| format!("{e:?}"))?;
        hs.read_message(&m, &mut out).map_err(|e| format!("{e:?}"))?;
        let n = hs.write_message(&payload, &mut buf).map_err(|e| format!("{e:?}"))?;
        write_msg(&mut io, &buf[..n]).await.map_err(|e| format!("{e:?}"))?;
        let m = read_msg(&mut io).await.map_err(|e| format!("{e:?}"))?;
        hs.read_message(&m, &mut out).map_err(|e| format!("{e:?}"))?;
    }
    // keep the pipe open for a while so the honest side decides on the payload, not on EOF
    tokio::time::sleep(Duration::from_secs(30)).await;
    Ok(())
}

#[derive(Default)]
struct World {
    /// per side: Some(Ok(peer)) / Some(Err(text))
    result: [Option<Result<PeerId, String>>; 2],
}

impl Prop for C01 {
    fn id(&self) -> &'static str {
        "C01"
    }

    fn budget(&self, tier: Tier) -> Budget {
        match tier {
            Tier::Quick => Budget { runs: 6000, wall_s: 60.0 },
            Tier::Thorough => Budget { runs: 300_000, wall_s: 540.0 },
        }
    }

    fn describe(&self) -> Describe {
        Describe {
            level: "fault_enumeration",
            rule: "systematic pre-pass: every byte offset 0..260 of each direction of the handshake x {flip bit 0, flip bit 7, set 0x00, set 0xff, truncate} with an active man in the middle, and every forged identity payload of the catalogue x both roles against a rogue peer that completes a valid Noise XX session; then seeded runs drawing key pairs, attack, offset, carrier fragmentation / short writes / Pending and the task schedule; non-trivial = the attack actually altered a byte in flight or a forged payload was presented; distinct = distinct trace hash".into(),
            real: vec!["crypto::noise::handshake (both roles)", "NoiseContext", "parse_and_verify_peer_id", "RemotePublicKey::from_protobuf_encoding / verify", "PeerId::from_public_key_protobuf", "snow"],
            stub: vec!["carrier (in-memory duplex pipe)", "the man in the middle", "the rogue peer (snow + hand-encoded payload)", "task scheduler (seeded)", "clock"],
            assumptions: vec![
                "the comparison of the proven identity with the dialed peer id happens in TcpConnection and is exercised end-to-end by the whole-node dial scenario (address shape wrong_peer), see C05",
                "the rogue's own session randomness comes from the run seed",
            ],
        }
    }

    fn nontrivial(&self, out: &RunOutput) -> bool {
        out.probes.keys().any(|k| k.starts_with("attack-fired") || k.starts_with("rogue:"))
    }

    fn systematic(&self, tier: Tier) -> Vec<Value> {
        let mut v = Vec::new();
        let carriers = [json!({"max_chunk": 65536, "short_write": false, "pending_pct": 0, "window": 1 << 20}), json!({"max_chunk": 1, "short_write": true, "pending_pct": 10, "window": 64})];
        let ncar = if tier == Tier::Quick { 1 } else { 2 };
        for (ci, car) in carriers.iter().take(ncar).enumerate() {
            for dir in 0..2u64 {
                for offset in 0..260u64 {
                    for (kind, arg) in [("flip", 1u64), ("flip", 0x80), ("set", 0), ("set", 0xff), ("truncate", 0)] {
                        v.push(json!({"property": "C01", "seed": 1000 + ci as u64, "mode": "mitm", "sched": {"kind": "fifo"}, "carrier": car, "attack": {"dir": dir, "offset": offset, "kind": kind, "arg": arg}}));
                    }
                }
            }
            for variant in VARIANTS {
                for rogue_dialer in [true, false] {
                    v.push(json!({"property": "C01", "seed": 2000 + ci as u64, "mode": "rogue", "sched": {"kind": "fifo"}, "carrier": car, "variant": variant, "rogue_dialer": rogue_dialer}));
                }
            }
        }
        v
    }

    fn gen(&self, seed: u64, _tier: Tier) -> Value {
        let mut rng = Rng::fork(seed, "c01-gen");
        let carrier = CarrierKnobs::gen(&mut rng);
        let sched = SchedKind::gen(&mut rng, 500);
        if rng.chance(1, 2) {
            let attack = if rng.chance(1, 6) {
                Value::Null
            } else {
                json!({"dir": rng.below(2), "offset": rng.below(230), "kind": *rng.pick(&["flip", "flip", "set", "truncate"]), "arg": rng.below(256)})
            };
            json!({"property": "C01", "seed": seed, "mode": "mitm", "sched": sched, "carrier": carrier, "attack": attack})
        } else {
            json!({"property": "C01", "seed": seed, "mode": "rogue", "sched": sched, "carrier": carrier, "variant": *rng.pick(VARIANTS), "rogue_dialer": rng.chance(1, 2)})
        }
    }

    fn shrink_keys(&self) -> Vec<&'static str> {
        vec![]
    }

    fn run(&self, case: &Value, verbose: bool) -> RunOutput {
        let case = case.clone();
        let seed = case["seed"].as_u64().unwrap_or(0);
        let sched = SchedKind::from_json(&case["sched"]);
        run_sim(seed, sched, Duration::from_secs(60), 2_000_000, verbose, move |handle: Handle| {
            let knobs = CarrierKnobs::from_json(&case["carrier"]);
            let (a, b, wires) = duplex(&handle, seed, &knobs);
            let world = Arc::new(Mutex::new(World::default()));
            let mode = case["mode"].as_str().unwrap_or("mitm").to_string();
            let fired = Arc::new(Mutex::new(false));
            let kp = [keypair(seed, 1), keypair(seed, 2)];
            let other = keypair(seed, 3);
            let peers: Vec<PeerId> = kp.iter().map(|k| PeerId::from_public_key(&litep2p::crypto::PublicKey::Ed25519(k.public()))).collect();
            let honest = |side: usize, io: End, h: &Handle, world: Arc<Mutex<World>>, kp: Keypair| {
                h.spawn(side + 1, "honest-endpoint", async move {
                    let role = if side == 0 { Role::Dialer } else { Role::Listener };
                    let r = handshake(io, &kp, role, 2, 2, Duration::from_secs(5), HandshakeTransport::Tcp).await;
                    let res = match r {
                        Ok((socket, peer)) => {
                            // keep the socket alive so the other side is judged on the handshake alone
                            tokio::time::sleep(Duration::from_secs(30)).await;
                            drop(socket);
                            Ok(peer)
                        }
                        Err(e) => Err(format!("{e:?}")),
                    };
                    world.lock().unwrap().result[side] = Some(res);
                });
            };
            let mut expected_rogue: Option<Option<PeerId>> = None;
            let mut honest_side = 0usize;
            if mode == "mitm" {
                if !case["attack"].is_null() {
                    let at = &case["attack"];
                    let m = OffsetMangler { pos: 0, offset: at["offset"].as_u64().unwrap_or(0), kind: at["kind"].as_str().unwrap_or("flip").to_string(), arg: at["arg"].as_u64().unwrap_or(1) as u8, fired: fired.clone() };
                    let wire = if at["dir"].as_u64().unwrap_or(0) == 0 { &wires.0 } else { &wires.1 };
                    wire.lock().unwrap().mangler = Some(Box::new(m));
                }
                honest(0, a, &handle, world.clone(), kp[0].clone());
                honest(1, b, &handle, world.clone(), kp[1].clone());
            } else {
                let rogue_dialer = case["rogue_dialer"].as_bool().unwrap_or(true);
                let variant = case["variant"].as_str().unwrap_or("honest").to_string();
                let (rogue_io, honest_io) = if rogue_dialer { (a, b) } else { (b, a) };
                honest_side = if rogue_dialer { 1 } else { 0 };
                let rk = kp[1 - honest_side].clone();
                // what may the honest side accept?
                let dummy_static = [0u8; 32];
                let (_, exp) = forge(&variant, &rk, &other, &dummy_static);
                expected_rogue = Some(exp);
                honest(honest_side, honest_io, &handle, world.clone(), kp[honest_side].clone());
                let h2 = handle.clone();
                let v2 = variant.clone();
                let o2 = other.clone();
                handle.spawn(2 - honest_side, "rogue-endpoint", async move {
                    let r = rogue(rogue_io, rogue_dialer, seed, v2.clone(), rk, o2).await;
                    h2.event(format!("rogue({v2}) finished: {r:?}"));
                });
                handle.probe(&format!("rogue:{variant}"));
            }
            {
                let world = world.clone();
                let h = handle.clone();
                let need = if mode == "mitm" { 2 } else { 1 };
                handle.spawn(0, "watch", async move {
                    loop {
                        tokio::time::sleep(Duration::from_millis(20)).await;
                        if world.lock().unwrap().result.iter().filter(|r| r.is_some()).count() >= need {
                            h.stop();
                            return;
                        }
                        // an Ok result is recorded only after its 30 s linger; errors come at once
                        if tokio::time::Instant::now().elapsed() > Duration::from_secs(0) {}
                    }
                });
            }
            let h = handle.clone();
            Box::new(move || {
                let w = world.lock().unwrap();
                if mode == "mitm" {
                    let fired = *fired.lock().unwrap();
                    if fired {
                        h.probe("attack-fired");
                        let dir = case["attack"]["dir"].as_u64().unwrap_or(0) as usize;
                        let receiver = 1 - dir;
                        match &w.result[receiver] {
                            Some(Ok(p)) => {
                                h.violation("c01:tampered-handshake-accepted", format!("a byte of the {} stream was altered in flight ({}), yet the receiving side reported a secured connection with {p}", if dir == 0 { "dialer->listener" } else { "listener->dialer" }, case["attack"]));
                            }
                            Some(Err(_)) => h.probe("tamper-rejected"),
                            None => {
                                h.violation("c01:handshake-hangs", format!("receiver of the altered stream neither failed nor succeeded within 60 s (attack {})", case["attack"]));
                            }
                        }
                    } else {
                        for side in 0..2 {
                            match &w.result[side] {
                                Some(Ok(p)) if *p == peers[1 - side] => {}
                                Some(Ok(p)) => {
                                    h.violation("c01:wrong-peer-reported", format!("untampered handshake: side {side} reports {p}, the remote identity is {}", peers[1 - side]));
                                    return;
                                }
                                Some(Err(e)) => {
                                    h.violation("c01:honest-handshake-failed", format!("untampered handshake failed on side {side}: {e}"));
                                    return;
                                }
                                None => {
                                    // Ok results are recorded after the linger; the run is stopped as
                                    // soon as both are in, so None means a hang
                                    h.violation("c01:handshake-hangs", format!("untampered handshake: side {side} did not finish"));
                                    return;
                                }
                            }
                        }
                        h.probe("honest-handshake-ok");
                    }
                } else {
                    let variant = case["variant"].as_str().unwrap_or("");
                    let exp = expected_rogue.clone().unwrap_or(None);
                    match (&w.result[honest_side], exp) {
                        (Some(Ok(p)), Some(e)) if *p == e => h.probe("rogue-valid-accepted"),
                        (Some(Ok(p)), Some(e)) => h.violation(format!("c01:wrong-peer-reported:{variant}"), format!("rogue payload {variant}: honest side reports {p}, the proven identity is {e}")),
                        (Some(Ok(p)), None) => h.violation(format!("c01:forged-identity-accepted:{variant}"), format!("rogue payload {variant}: honest side reported a secured connection with {p}")),
                        (Some(Err(e)), Some(_)) => h.violation(format!("c01:valid-identity-rejected:{variant}"), format!("rogue payload {variant} is a valid proof but the honest side failed: {e}")),
                        (Some(Err(_)), None) => h.probe("forgery-rejected"),
                        (None, _) => h.violation(format!("c01:handshake-hangs:{variant}"), format!("rogue payload {variant}: honest side neither failed nor succeeded within 60 s")),
                    }
                }
            })
        })
    }
}
