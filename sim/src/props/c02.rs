//! C02 — the Noise transport delivers the exact byte stream or fails.
//!
//! Real `noise::handshake` on both ends of an in-memory carrier, then a writer and a reader task
//! per direction (full duplex). Honest runs: the bytes read equal the bytes written, no error.
//! Attacker runs: one ciphertext frame in one direction is modified, truncated, replayed, dropped
//! or swapped with its successor: the reader must never deliver a byte that differs from the honest
//! stream at that position and must not deliver anything from the attacked frame on.
use crate::carrier::{duplex, CarrierKnobs, FrameMangler};
use crate::node::keypair;
use crate::rng::Rng;
use crate::runner::{Budget, Describe, Prop, Tier};
use crate::sim::{run_sim, Handle, RunOutput, SchedKind};
use futures::io::{AsyncReadExt, AsyncWriteExt};
use litep2p::verif::noise::{handshake, HandshakeTransport, Role};
use serde_json::{json, Value};
use std::{
    sync::{Arc, Mutex},
    time::Duration,
};

pub struct C02;

pub fn prf(dir: u64, pos: u64) -> u8 {
    let x = pos.wrapping_mul(0x9E3779B97F4A7C15).wrapping_add(dir.wrapping_mul(0xD1B54A32D192ED03));
    ((x >> 29) as u8) ^ (pos as u8).rotate_left(3)
}

#[derive(Default)]
struct DirState {
    written: u64,
    writer_done: bool,
    writer_err: Option<String>,
    read: u64,
    reader_done: bool,
    reader_err: Option<String>,
    reader_eof: bool,
    bad_at: Option<u64>,
}

#[derive(Default)]
struct World {
    hs_err: [Option<String>; 2],
    hs_done: [bool; 2],
    dirs: [DirState; 2],
}

fn size_class(rng: &mut Rng) -> u64 {
    match rng.below(12) {
        0 => 1,
        1 => 2,
        2 => rng.range(15, 17),
        3 => rng.range(1000, 1100),
        4 => 16 * 1024,
        5 => rng.range(65_517, 65_522),
        6 => 65_519,
        7 => 65_520,
        8 => 2 * 65_520 + rng.below(3),
        9 => rng.range(100_000, 400_000),
        _ => rng.range(1, 5000),
    }
}

impl Prop for C02 {
    fn id(&self) -> &'static str {
        "C02"
    }

    fn budget(&self, tier: Tier) -> Budget {
        match tier {
            Tier::Quick => Budget { runs: 8000, wall_s: 60.0 },
            Tier::Thorough => Budget { runs: 400_000, wall_s: 540.0 },
        }
    }

    fn describe(&self) -> Describe {
        Describe {
            level: "exploration",
            rule: "each case = one seeded run of two endpoints performing the real Noise handshake over an in-memory carrier and then exchanging byte streams in both directions: materialised write-size sequences (1 byte .. several maximum frames, incl. 65519/65520/65521), reader buffer sizes, read-ahead/write-buffer settings, carrier fragmentation/short-write/Pending/window knobs, scheduler kind, and in attacker runs one frame-level attack (flip, truncate, replay, drop, swap) at a chosen frame; non-trivial = scheduler had >=1 choice point; distinct = distinct trace hash".into(),
            real: vec!["crypto::noise::handshake", "NoiseSocket (poll_read state machine, poll_write buffering, poll_flush, poll_close)", "snow"],
            stub: vec!["carrier (in-memory duplex pipe)", "the attacker", "task scheduler (seeded)", "clock"],
            assumptions: vec!["the attacker sees frame boundaries through the 2-byte length prefixes and acts on whole frames", "dropping the final frame of a stream is indistinguishable from truncation: the reader must then see EOF or an error, never altered data"],
        }
    }

    fn gen(&self, seed: u64, _tier: Tier) -> Value {
        let mut rng = Rng::fork(seed, "c02-gen");
        let mut dirs = Vec::new();
        for _ in 0..2 {
            let n = rng.range(0, 8);
            let mut total = 0u64;
            let mut w = Vec::new();
            for _ in 0..n {
                let s = size_class(&mut rng);
                if total + s > 1_500_000 {
                    break;
                }
                total += s;
                w.push(json!({"size": s, "flush": rng.chance(1, 2)}));
            }
            let rb: Vec<u64> = (0..rng.range(1, 4)).map(|_| *rng.pick(&[1u64, 2, 16, 1000, 65_519, 65_520, 65_536, 400_000])).collect();
            dirs.push(json!({"writes": w, "read_bufs": rb}));
        }
        let attack = if rng.chance(1, 3) {
            json!({"kind": *rng.pick(&["flip", "drop", "dup", "swap", "trunc"]), "dir": rng.below(2), "k": rng.below(6), "arg": rng.below(70_000)})
        } else {
            Value::Null
        };
        json!({
            "property": "C02",
            "seed": seed,
            "sched": SchedKind::gen(&mut rng, 2000),
            "carrier": CarrierKnobs::gen(&mut rng),
            "read_ahead": rng.range(1, 5),
            "write_buffer": rng.range(1, 3),
            "ops": dirs,
            "attack": attack,
        })
    }

    fn shrink_keys(&self) -> Vec<&'static str> {
        vec![]
    }

    /// Buffer-edge sweep: a near-maximal frame whose length prefix ends 0..16 bytes before the end
    /// of the read-ahead window (for every read-ahead factor), with everything buffered in the
    /// carrier before the reader starts.
    fn systematic(&self, tier: Tier) -> Vec<Value> {
        let mut v = Vec::new();
        let deltas: Vec<u64> = if tier == Tier::Quick { (0..=16).collect() } else { (0..=40).collect() };
        for f in 1..=5u64 {
            let w = f * 65_535;
            for delta in deltas.iter() {
                for f2 in [65_535u64, 65_528, 65_522] {
                    // first payload byte of the last frame at `offset` within the contiguous buffer
                    let offset = w - delta;
                    let p1 = offset as i64 - 20 - (f as i64 - 1) * 65_537;
                    if p1 < 1 || p1 > 65_519 {
                        continue;
                    }
                    let mut writes: Vec<Value> = (0..f - 1).map(|_| json!({"size": 65_519, "flush": false})).collect();
                    writes.push(json!({"size": p1, "flush": false}));
                    writes.push(json!({"size": f2 - 16, "flush": false}));
                    writes.push(json!({"size": 100, "flush": true}));
                    v.push(json!({
                        "property": "C02",
                        "seed": 3000 + f * 1000 + delta * 10 + (65_535 - f2),
                        "sched": {"kind": "fifo"},
                        "carrier": {"max_chunk": 1 << 22, "short_write": false, "pending_pct": 0, "window": 1 << 22},
                        "read_ahead": f,
                        "write_buffer": 3,
                        "ops": [{"writes": writes, "read_bufs": [65_536], "reader_delay_ms": 0}, {"writes": [], "read_bufs": [400_000], "reader_delay_ms": 2000}],
                        "attack": Value::Null,
                    }));
                }
            }
        }
        v
    }

    fn run(&self, case: &Value, verbose: bool) -> RunOutput {
        let case = case.clone();
        let seed = case["seed"].as_u64().unwrap_or(0);
        let sched = SchedKind::from_json(&case["sched"]);
        run_sim(seed, sched, Duration::from_secs(120), 20_000_000, verbose, move |handle: Handle| {
            let knobs = CarrierKnobs::from_json(&case["carrier"]);
            let (a, b, wires) = duplex(&handle, seed, &knobs);
            let world = Arc::new(Mutex::new(World::default()));
            let ra = case["read_ahead"].as_u64().unwrap_or(5) as usize;
            let wb = case["write_buffer"].as_u64().unwrap_or(2) as usize;
            let attack = case["attack"].clone();
            let attack_state: Arc<Mutex<Option<Arc<Mutex<(bool, u64)>>>>> = Arc::new(Mutex::new(None));
            let mut ends = vec![Some(a), Some(b)];
            for side in 0..2usize {
                let io = ends[side].take().unwrap();
                let world = world.clone();
                let h = handle.clone();
                let kp = keypair(seed, side + 1);
                let case = case.clone();
                let wires = wires.clone();
                let attack = attack.clone();
                let attack_state = attack_state.clone();
                handle.spawn(side + 1, "endpoint", async move {
                    let role = if side == 0 { Role::Dialer } else { Role::Listener };
                    let r = handshake(io, &kp, role, ra, wb, Duration::from_secs(10), HandshakeTransport::Tcp).await;
                    let socket = match r {
                        Ok((s, _peer)) => s,
                        Err(e) => {
                            world.lock().unwrap().hs_err[side] = Some(format!("{e:?}"));
                            world.lock().unwrap().hs_done[side] = true;
                            return;
                        }
                    };
                    world.lock().unwrap().hs_done[side] = true;
                    // install the attacker on this side's outgoing wire once its handshake is over
                    if !attack.is_null() && attack["dir"].as_u64().unwrap_or(0) as usize == side {
                        let (m, st) = FrameMangler::new(attack["kind"].as_str().unwrap_or("flip"), attack["k"].as_u64().unwrap_or(0), attack["arg"].as_u64().unwrap_or(0));
                        let wire = if side == 0 { &wires.0 } else { &wires.1 };
                        wire.lock().unwrap().mangler = Some(Box::new(m));
                        *attack_state.lock().unwrap() = Some(st);
                    }
                    let (mut rd, mut wr) = socket.split();
                    // writer for direction `side`, reader for direction `1 - side`
                    let wdir = side;
                    let rdir = 1 - side;
                    let writes: Vec<Value> = case["ops"][wdir]["writes"].as_array().cloned().unwrap_or_default();
                    let bufs: Vec<usize> = case["ops"][rdir]["read_bufs"].as_array().map(|a| a.iter().map(|x| x.as_u64().unwrap_or(1024) as usize).collect()).unwrap_or(vec![1024]);
                    let w2 = world.clone();
                    let hw = h.clone();
                    h.spawn(side + 1, "writer", async move {
                        let mut pos = 0u64;
                        for op in writes {
                            let size = op["size"].as_u64().unwrap_or(1) as usize;
                            let data: Vec<u8> = (0..size as u64).map(|k| prf(wdir as u64, pos + k)).collect();
                            let mut off = 0;
                            while off < data.len() {
                                match wr.write(&data[off..]).await {
                                    Ok(0) => {
                                        w2.lock().unwrap().dirs[wdir].writer_err = Some("write returned 0".into());
                                        w2.lock().unwrap().dirs[wdir].writer_done = true;
                                        return;
                                    }
                                    Ok(n) if n > data.len() - off => {
                                        hw.violation("c02:write-returned-more-than-given", format!("poll_write returned {n} for a buffer of {} bytes", data.len() - off));
                                        return;
                                    }
                                    Ok(n) => {
                                        off += n;
                                        w2.lock().unwrap().dirs[wdir].written += n as u64;
                                    }
                                    Err(e) => {
                                        let mut w = w2.lock().unwrap();
                                        w.dirs[wdir].writer_err = Some(format!("write of {} bytes at stream offset {}: {e:?}", data.len() - off, pos + off as u64));
                                        w.dirs[wdir].writer_done = true;
                                        return;
                                    }
                                }
                            }
                            pos += size as u64;
                            if op["flush"].as_bool().unwrap_or(false) {
                                if let Err(e) = wr.flush().await {
                                    let mut w = w2.lock().unwrap();
                                    w.dirs[wdir].writer_err = Some(format!("flush: {e:?}"));
                                    w.dirs[wdir].writer_done = true;
                                    return;
                                }
                            }
                        }
                        let r = wr.close().await;
                        let mut w = w2.lock().unwrap();
                        if let Err(e) = r {
                            w.dirs[wdir].writer_err = Some(format!("close: {e:?}"));
                        }
                        w.dirs[wdir].writer_done = true;
                    });
                    let w3 = world.clone();
                    let reader_delay = case["ops"][rdir]["reader_delay_ms"].as_u64().unwrap_or(0);
                    h.spawn(side + 1, "reader", async move {
                        let mut pos = 0u64;
                        let mut k = 0usize;
                        if reader_delay > 0 {
                            // a reader slower than the writer: the carrier fills up first
                            tokio::time::sleep(Duration::from_millis(reader_delay)).await;
                        }
                        loop {
                            let size = bufs[k % bufs.len()].max(1);
                            k += 1;
                            let mut buf = vec![0u8; size];
                            match rd.read(&mut buf).await {
                                Ok(0) => {
                                    let mut w = w3.lock().unwrap();
                                    w.dirs[rdir].reader_eof = true;
                                    w.dirs[rdir].reader_done = true;
                                    return;
                                }
                                Ok(n) => {
                                    let mut w = w3.lock().unwrap();
                                    for (j, b) in buf[..n].iter().enumerate() {
                                        if *b != prf(rdir as u64, pos + j as u64) && w.dirs[rdir].bad_at.is_none() {
                                            w.dirs[rdir].bad_at = Some(pos + j as u64);
                                        }
                                    }
                                    pos += n as u64;
                                    w.dirs[rdir].read = pos;
                                }
                                Err(e) => {
                                    let mut w = w3.lock().unwrap();
                                    w.dirs[rdir].reader_err = Some(format!("{e:?}"));
                                    w.dirs[rdir].reader_done = true;
                                    return;
                                }
                            }
                        }
                    });
                });
            }
            // stop as soon as everything has finished
            {
                let world = world.clone();
                let h = handle.clone();
                handle.spawn(0, "watch", async move {
                    loop {
                        tokio::time::sleep(Duration::from_millis(50)).await;
                        let w = world.lock().unwrap();
                        let hs_failed = w.hs_done[0] && w.hs_done[1] && (w.hs_err[0].is_some() || w.hs_err[1].is_some());
                        let all = w.dirs.iter().all(|d| d.writer_done && d.reader_done);
                        if hs_failed || all {
                            drop(w);
                            h.stop();
                            return;
                        }
                    }
                });
            }
            let h = handle.clone();
            Box::new(move || {
                let w = world.lock().unwrap();
                let attacked = !attack.is_null();
                for side in 0..2 {
                    if let Some(e) = &w.hs_err[side] {
                        h.violation("c02:honest-handshake-failed", format!("side {side}: {e}"));
                        return;
                    }
                }
                let ast = attack_state.lock().unwrap().as_ref().map(|s| *s.lock().unwrap());
                let adir = attack["dir"].as_u64().unwrap_or(9) as usize;
                for (d, st) in w.dirs.iter().enumerate() {
                    if let Some(p) = st.bad_at {
                        h.violation("c02:wrong-byte-delivered", format!("direction {d}: byte at stream offset {p} differs from what was written{}", if attacked && adir == d { " (attacker active on this direction)" } else { "" }));
                        return;
                    }
                    let fired = attacked && adir == d && ast.map_or(false, |s| s.0);
                    // an attack on direction d may legitimately break the other direction too
                    // (the victim closes), so the honest checks apply only when no attack fired
                    let any_fired = attacked && ast.map_or(false, |s| s.0);
                    if !any_fired {
                        if let Some(e) = &st.writer_err {
                            h.violation("c02:honest-write-error", format!("direction {d}: {e}"));
                            return;
                        }
                        // the socket reports the end of the inner stream as an error (the layers
                        // above close explicitly); that is fine once everything was delivered
                        if let Some(e) = &st.reader_err {
                            if !(st.writer_done && st.read == st.written) {
                                h.violation("c02:honest-read-error", format!("direction {d}: after {} of {} bytes: {e}", st.read, st.written));
                                return;
                            }
                        }
                        if !st.writer_done || !st.reader_done {
                            h.violation("c02:stalled", format!("direction {d}: writer done={} reader done={} written={} read={} at the horizon", st.writer_done, st.reader_done, st.written, st.read));
                            return;
                        }
                        if st.read != st.written {
                            h.violation("c02:bytes-lost-or-duplicated", format!("direction {d}: {} bytes written, {} bytes read before EOF", st.written, st.read));
                            return;
                        }
                        h.probe("honest-direction-verified");
                    }
                    if fired {
                        let clean = ast.unwrap().1;
                        if st.read > clean {
                            h.violation(
                                format!("c02:tampered-frame-accepted:{}", attack["kind"].as_str().unwrap_or("")),
                                format!("direction {d}: attack {} on frame {}: only {clean} plaintext bytes preceded the attacked frame but the reader obtained {} bytes", attack["kind"], attack["k"], st.read),
                            );
                            return;
                        }
                        if !st.reader_done {
                            h.violation("c02:reader-hangs-after-attack", format!("direction {d}: reader neither failed nor saw EOF although the writer closed"));
                            return;
                        }
                        h.probe(&format!("attack-detected:{}", attack["kind"].as_str().unwrap_or("")));
                    }
                }
            })
        })
    }
}
