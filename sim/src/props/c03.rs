//! C03 — protocol negotiation agrees on one protocol and is transparent afterwards.
//!
//! Stream variant: a dialer task (`dialer_select_proto`, V1 or V1Lazy) and a listener task
//! (`listener_select_proto`) over the carrier, each followed at once by application traffic.
//! Differential variants: litep2p on one side, rust-libp2p's `multistream-select 0.13` on the
//! other. Message variant: `WebRtcDialerState` against `webrtc_listener_negotiate` with seeded
//! message groupings.
use crate::carrier::{duplex, CarrierKnobs, End};
use crate::rng::Rng;
use crate::runner::{Budget, Describe, Prop, Tier};
use crate::sim::{run_sim, Handle, RunOutput, SchedKind};
use bytes::Bytes;
use futures::io::{AsyncReadExt, AsyncWriteExt};
use litep2p::verif::multistream_select as ms;
use litep2p::ProtocolName;
use serde_json::{json, Value};
use std::{
    sync::{Arc, Mutex},
    time::Duration,
};

pub struct C03;

fn name_pool() -> Vec<String> {
    let mut v: Vec<String> = ["/a", "/a/1", "/a/1.0", "/a/1.0.0", "/ab", "/b", "/proto/with/many/segments/1", "/ipfs/kad/1.0.0", "/x"].iter().map(|s| s.to_string()).collect();
    v.push(format!("/long/{}", "y".repeat(200)));
    v.push(format!("/longer/{}", "z".repeat(900)));
    v
}

fn payload(tag: u8, n: usize) -> Vec<u8> {
    // may look like multistream traffic on purpose
    let mut v: Vec<u8> = b"\x13/multistream/1.0.0\n".iter().cloned().cycle().take(n).collect();
    for (i, b) in v.iter_mut().enumerate() {
        if i % 7 == 3 {
            *b = tag.wrapping_add(i as u8);
        }
    }
    v
}

#[derive(Default)]
struct World {
    dialer: Option<Result<String, String>>,
    listener: Option<Result<String, String>>,
    /// application bytes each side obtained after negotiation
    dialer_got: Option<Result<Vec<u8>, String>>,
    listener_got: Option<Result<Vec<u8>, String>>,
}

fn expected(dialer: &[String], listener: &[String]) -> Option<String> {
    dialer.iter().find(|p| listener.contains(p)).cloned()
}

/// `listener_first`: the protocol's first application message comes from the listener, so the
/// dialer's first operation on the negotiated stream is a read (with the lazy dialer the bytes of
/// the negotiation that are still pending have to go out before it).
async fn app_dialer<S: futures::io::AsyncRead + futures::io::AsyncWrite + Unpin>(mut io: S, send: Vec<u8>, expect_len: usize, listener_first: bool) -> Result<Vec<u8>, String> {
    let mut buf = vec![0u8; expect_len];
    if listener_first {
        io.read_exact(&mut buf).await.map_err(|e| format!("read: {e:?}"))?;
        io.write_all(&send).await.map_err(|e| format!("write: {e:?}"))?;
        io.flush().await.map_err(|e| format!("flush: {e:?}"))?;
        return Ok(buf);
    }
    io.write_all(&send).await.map_err(|e| format!("write: {e:?}"))?;
    io.flush().await.map_err(|e| format!("flush: {e:?}"))?;
    io.read_exact(&mut buf).await.map_err(|e| format!("read: {e:?}"))?;
    // nothing extra may follow
    Ok(buf)
}

async fn app_listener<S: futures::io::AsyncRead + futures::io::AsyncWrite + Unpin>(mut io: S, send: Vec<u8>, expect_len: usize, listener_first: bool) -> Result<Vec<u8>, String> {
    let mut buf = vec![0u8; expect_len];
    if listener_first {
        io.write_all(&send).await.map_err(|e| format!("write: {e:?}"))?;
        io.flush().await.map_err(|e| format!("flush: {e:?}"))?;
        io.read_exact(&mut buf).await.map_err(|e| format!("read: {e:?}"))?;
        io.close().await.map_err(|e| format!("close: {e:?}"))?;
        return Ok(buf);
    }
    io.read_exact(&mut buf).await.map_err(|e| format!("read: {e:?}"))?;
    io.write_all(&send).await.map_err(|e| format!("write: {e:?}"))?;
    io.flush().await.map_err(|e| format!("flush: {e:?}"))?;
    io.close().await.map_err(|e| format!("close: {e:?}"))?;
    Ok(buf)
}

impl Prop for C03 {
    fn id(&self) -> &'static str {
        "C03"
    }

    fn budget(&self, tier: Tier) -> Budget {
        match tier {
            Tier::Quick => Budget { runs: 20_000, wall_s: 60.0 },
            Tier::Thorough => Budget { runs: 1_000_000, wall_s: 540.0 },
        }
    }

    fn describe(&self) -> Describe {
        Describe {
            level: "exploration",
            rule: "each case = one seeded run of a dialer and a listener negotiating over the simulated carrier and then exchanging application payloads: dialer preference list and listener set drawn from a pool built to collide (prefixes of each other, long names, disjoint/nested/equal sets), protocol version (V1 / V1Lazy), which side runs litep2p and which runs rust-libp2p's multistream-select 0.13 (differential), payload sizes incl. 0 and payloads that look like negotiation frames, carrier fragmentation to single bytes / short writes / Pending / tiny window, scheduler kind; message variant: seeded groupings of the datagram-style messages; non-trivial = scheduler had >=1 choice point; distinct = distinct trace hash".into(),
            real: vec!["multistream_select::dialer_select_proto (V1, V1Lazy)", "listener_select_proto", "Negotiated (AsyncRead/AsyncWrite)", "MessageIO / LengthDelimited", "WebRtcDialerState", "webrtc_listener_negotiate"],
            stub: vec!["carrier (in-memory duplex pipe)", "task scheduler (seeded)", "reference peer: rust-libp2p multistream-select 0.13 (real code of that crate)"],
            assumptions: vec!["for V1Lazy with a single protocol the dialer's failure may surface at its first read instead of at negotiation, as the protocol documents"],
        }
    }

    fn gen(&self, seed: u64, _tier: Tier) -> Value {
        let mut rng = Rng::fork(seed, "c03-gen");
        let pool = name_pool();
        let pick_set = |rng: &mut Rng, n: u64| -> Vec<String> {
            let mut v: Vec<String> = Vec::new();
            for _ in 0..n {
                let p = rng.pick(&pool).clone();
                if !v.contains(&p) {
                    v.push(p);
                }
            }
            v
        };
        let nd = rng.range(1, 6);
        let dialer = pick_set(&mut rng, nd);
        let listener = match rng.below(5) {
            0 => dialer.clone(),
            1 => dialer.iter().rev().take(1 + dialer.len() / 2).cloned().collect(),
            _ => {
                let nl = rng.range(0, 6);
                pick_set(&mut rng, nl)
            }
        };
        let mode = *rng.pick(&["stream", "stream", "diff_dialer", "diff_listener", "message"]);
        json!({
            "property": "C03",
            "seed": seed,
            "mode": mode,
            "sched": SchedKind::gen(&mut rng, 800),
            "carrier": CarrierKnobs::gen(&mut rng),
            "dialer": dialer,
            "listener": listener,
            "lazy": rng.chance(1, 2),
            // with the lazy variant nothing is negotiated unless application bytes flow
            "dialer_payload": *rng.pick(&[1u64, 2, 20, 21, 300, 5000]),
            "listener_payload": *rng.pick(&[1u64, 2, 20, 300, 5000]),
            "grouping": rng.below(4),
            // who speaks first after the negotiation (independent stream of the seed)
            "listener_first": Rng::fork(seed, "c03-order").chance(1, 3),
        })
    }

    fn shrink_keys(&self) -> Vec<&'static str> {
        vec!["dialer", "listener"]
    }

    fn run(&self, case: &Value, verbose: bool) -> RunOutput {
        let case = case.clone();
        let seed = case["seed"].as_u64().unwrap_or(0);
        let sched = SchedKind::from_json(&case["sched"]);
        run_sim(seed, sched, Duration::from_secs(30), 5_000_000, verbose, move |handle: Handle| {
            let dialer: Vec<String> = case["dialer"].as_array().map(|a| a.iter().filter_map(|x| x.as_str().map(|s| s.to_string())).collect()).unwrap_or_default();
            let listener: Vec<String> = case["listener"].as_array().map(|a| a.iter().filter_map(|x| x.as_str().map(|s| s.to_string())).collect()).unwrap_or_default();
            let mode = case["mode"].as_str().unwrap_or("stream").to_string();
            let lazy = case["lazy"].as_bool().unwrap_or(false);
            let listener_first = case["listener_first"].as_bool().unwrap_or(false);
            let exp = expected(&dialer, &listener);
            if dialer.is_empty() {
                return Box::new(|| {});
            }
            if mode == "message" {
                let r = message_variant(&dialer, &listener, case["grouping"].as_u64().unwrap_or(0));
                let h = handle.clone();
                h.stop();
                return Box::new(move || match (r, exp) {
                    (Ok(Some(got)), Some(e)) if got == e => h.probe("message-agreed"),
                    (Ok(None), None) => h.probe("message-rejected"),
                    (Ok(got), e) => h.violation("c03:message-variant-disagreement", format!("message-based negotiation: dialer list {dialer:?}, listener set {listener:?}: result {got:?}, expected {e:?}")),
                    (Err(e), _) => h.violation("c03:message-variant-error", format!("message-based negotiation: dialer list {dialer:?}, listener set {listener:?}: {e}")),
                });
            }
            let mut knobs = CarrierKnobs::from_json(&case["carrier"]);
            // Both sides may write before they read (optimistic dialer, listener confirmation):
            // with a pipe smaller than those messages that is a protocol-inherent deadlock, not a
            // negotiation fault. Socket buffers are far larger than any negotiation message.
            knobs.window = knobs.window.max(1 << 20);
            let (a, b, _wires) = duplex(&handle, seed, &knobs);
            let world = Arc::new(Mutex::new(World::default()));
            let pd = payload(0xd1, case["dialer_payload"].as_u64().unwrap_or(0) as usize);
            let pl = payload(0x17, case["listener_payload"].as_u64().unwrap_or(0) as usize);
            // dialer
            {
                let world = world.clone();
                let dialer = dialer.clone();
                let (pd, pl_len) = (pd.clone(), pl.len());
                let litep2p_dialer = mode != "diff_listener";
                handle.spawn(1, "dialer", async move {
                    if litep2p_dialer {
                        let v = if lazy { ms::Version::V1Lazy } else { ms::Version::V1 };
                        match ms::dialer_select_proto(a, dialer.clone(), v).await {
                            Ok((p, io)) => {
                                world.lock().unwrap().dialer = Some(Ok(p));
                                let r = app_dialer(io, pd, pl_len, listener_first).await;
                                world.lock().unwrap().dialer_got = Some(r);
                            }
                            Err(e) => world.lock().unwrap().dialer = Some(Err(format!("{e:?}"))),
                        }
                    } else {
                        let v = if lazy { rs_multistream_select::Version::V1Lazy } else { rs_multistream_select::Version::V1 };
                        match rs_multistream_select::dialer_select_proto(a, dialer.clone(), v).await {
                            Ok((p, io)) => {
                                world.lock().unwrap().dialer = Some(Ok(p));
                                let r = app_dialer(io, pd, pl_len, listener_first).await;
                                world.lock().unwrap().dialer_got = Some(r);
                            }
                            Err(e) => world.lock().unwrap().dialer = Some(Err(format!("{e:?}"))),
                        }
                    }
                });
            }
            // listener
            {
                let world = world.clone();
                let listener = listener.clone();
                let (pl, pd_len) = (pl.clone(), pd.len());
                let litep2p_listener = mode != "diff_dialer";
                handle.spawn(2, "listener", async move {
                    if litep2p_listener {
                        match ms::listener_select_proto(b, listener.clone()).await {
                            Ok((p, io)) => {
                                world.lock().unwrap().listener = Some(Ok(p));
                                let r = app_listener(io, pl, pd_len, listener_first).await;
                                world.lock().unwrap().listener_got = Some(r);
                            }
                            Err(e) => world.lock().unwrap().listener = Some(Err(format!("{e:?}"))),
                        }
                    } else {
                        match rs_multistream_select::listener_select_proto(b, listener.clone()).await {
                            Ok((p, io)) => {
                                world.lock().unwrap().listener = Some(Ok(p));
                                let r = app_listener(io, pl, pd_len, listener_first).await;
                                world.lock().unwrap().listener_got = Some(r);
                            }
                            Err(e) => world.lock().unwrap().listener = Some(Err(format!("{e:?}"))),
                        }
                    }
                });
            }
            {
                let world = world.clone();
                let h = handle.clone();
                handle.spawn(0, "watch", async move {
                    loop {
                        tokio::time::sleep(Duration::from_millis(10)).await;
                        let w = world.lock().unwrap();
                        let d_done = matches!(&w.dialer, Some(Err(_))) || w.dialer_got.is_some();
                        let l_done = matches!(&w.listener, Some(Err(_))) || w.listener_got.is_some();
                        if d_done && l_done {
                            drop(w);
                            h.stop();
                            return;
                        }
                    }
                });
            }
            let h = handle.clone();
            Box::new(move || {
                let w = world.lock().unwrap();
                let short = |v: &Vec<String>| v.iter().map(|s| if s.len() > 24 { format!("{}..({})", &s[..12], s.len()) } else { s.clone() }).collect::<Vec<_>>();
                let ctx = format!("mode {mode}, {} dialer list {:?}, listener set {:?}, {} speaks first", if lazy { "V1Lazy" } else { "V1" }, short(&dialer), short(&listener), if listener_first { "listener" } else { "dialer" });
                let d_done = matches!(&w.dialer, Some(Err(_))) || w.dialer_got.is_some();
                let l_done = matches!(&w.listener, Some(Err(_))) || w.listener_got.is_some();
                if !d_done || !l_done {
                    h.violation("c03:negotiation-hangs", format!("{ctx}: dialer finished={d_done} listener finished={l_done} (dialer {:?}, listener {:?})", w.dialer, w.listener));
                    return;
                }
                match &exp {
                    Some(e) => {
                        match (&w.dialer, &w.listener) {
                            (Some(Ok(d)), Some(Ok(l))) if d == e && l == e => {}
                            (d, l) => {
                                h.violation("c03:disagreement", format!("{ctx}: expected both sides to select {e:?}; dialer {d:?}, listener {l:?}"));
                                return;
                            }
                        }
                        match (&w.dialer_got, &w.listener_got) {
                            (Some(Ok(dg)), Some(Ok(lg))) => {
                                if *lg != pd {
                                    h.violation("c03:payload-altered", format!("{ctx}: the listener read {} application bytes that differ from the {} bytes the dialer wrote after negotiation", lg.len(), pd.len()));
                                    return;
                                }
                                if *dg != pl {
                                    h.violation("c03:payload-altered", format!("{ctx}: the dialer read {} application bytes that differ from the {} bytes the listener wrote", dg.len(), pl.len()));
                                    return;
                                }
                                h.probe("agreed-and-transparent");
                            }
                            (dg, lg) => {
                                h.violation("c03:payload-lost", format!("{ctx}: negotiated {e:?} but application exchange failed: dialer {:?}, listener {:?}", dg.as_ref().map(|r| r.as_ref().map(|v| v.len())), lg.as_ref().map(|r| r.as_ref().map(|v| v.len()))));
                            }
                        }
                    }
                    None => {
                        let d_fail = matches!(&w.dialer, Some(Err(_))) || matches!(&w.dialer_got, Some(Err(_)));
                        let l_fail = matches!(&w.listener, Some(Err(_)));
                        if !d_fail || !l_fail {
                            h.violation("c03:agreement-without-common-protocol", format!("{ctx}: no common protocol, yet dialer {:?}/{:?}, listener {:?}", w.dialer, w.dialer_got.as_ref().map(|r| r.as_ref().map(|v| v.len())), w.listener));
                            return;
                        }
                        h.probe("both-failed-as-expected");
                    }
                }
            })
        })
    }
}

/// Message-based (datagram style) negotiation. Returns the protocol both sides agreed on.
fn message_variant(dialer: &[String], listener: &[String], grouping: u64) -> Result<Option<String>, String> {
    let supported: Vec<ProtocolName> = listener.iter().map(|s| ProtocolName::from(s.clone())).collect();
    let main = ProtocolName::from(dialer[0].clone());
    let fallbacks: Vec<ProtocolName> = dialer[1..].iter().map(|s| ProtocolName::from(s.clone())).collect();
    let (mut state, mut msg) = ms::WebRtcDialerState::propose(main, fallbacks).map_err(|e| format!("propose: {e:?}"))?;
    let mut header_received = false;
    let mut listener_accepted: Option<String> = None;
    for _round in 0..(dialer.len() + 2) {
        // groupings 1/3: the first message is delivered as header alone, then the protocol alone
        let mut to_listener: Vec<Vec<u8>> = vec![msg.clone()];
        if !header_received && (grouping == 1 || grouping == 3) {
            // split header from protocol: header frame is 1 byte varint + 19 bytes
            let hl = 1 + msg[0] as usize;
            if msg.len() > hl {
                to_listener = vec![msg[..hl].to_vec(), msg[hl..].to_vec()];
            }
        }
        let mut responses: Vec<Vec<u8>> = Vec::new();
        for m in to_listener {
            match ms::webrtc_listener_negotiate(supported.clone(), Bytes::from(m), header_received) {
                Ok(ms::ListenerSelectResult::Accepted { protocol, message }) => {
                    header_received = true;
                    listener_accepted = Some(protocol.to_string());
                    responses.push(message.to_vec());
                }
                Ok(ms::ListenerSelectResult::Rejected { message }) => {
                    header_received = true;
                    responses.push(message.to_vec());
                }
                Ok(ms::ListenerSelectResult::PendingProtocol { message }) => {
                    header_received = true;
                    responses.push(message.to_vec());
                }
                Err(e) => return Err(format!("listener: {e:?}")),
            }
        }
        // groupings 2/3: responses glued together into one payload
        let deliveries: Vec<Vec<u8>> = if grouping >= 2 { vec![responses.concat()] } else { responses };
        let mut result = ms::HandshakeResult::NotReady;
        for d in deliveries {
            result = state.register_response(d).map_err(|e| format!("dialer register_response: {e:?}"))?;
        }
        match result {
            ms::HandshakeResult::Succeeded(p) => {
                let p = p.to_string();
                return if listener_accepted.as_deref() == Some(p.as_str()) { Ok(Some(p)) } else { Err(format!("dialer settled on {p}, listener accepted {listener_accepted:?}")) };
            }
            ms::HandshakeResult::Rejected => match state.propose_next_fallback().map_err(|e| format!("{e:?}"))? {
                Some(m) => msg = m,
                None => return Ok(None),
            },
            ms::HandshakeResult::NotReady => return Err("dialer still NotReady after a full listener response".into()),
        }
    }
    Err("no conclusion".into())
}

#[allow(dead_code)]
fn _unused(_: End) {}
