//! C04 — framed substream messages round-trip exactly within configured limits.
//!
//! Two yamux connections over the carrier, each driven by its own task (as `TcpConnection` does),
//! one stream, both ends wrapped into litep2p's framed `Substream` with a seeded codec. A sender
//! task uses `SinkExt::send`, `feed`+`flush` or `send_framed` per message and, once its last call
//! has returned, never polls the substream again (it only keeps it alive). A receiver task polls
//! `Stream::next` with seeded stalls.
use crate::carrier::{duplex, CarrierKnobs};
use crate::node::peer_id;
use crate::rng::Rng;
use crate::runner::{Budget, Describe, Prop, Tier};
use crate::sim::{run_sim, Handle, RunOutput, SchedKind};
use bytes::Bytes;
use futures::{SinkExt, StreamExt};
use litep2p::{
    codec::ProtocolCodec,
    yamux::{Config as YamuxConfig, Connection, Control, Mode},
};
use serde_json::{json, Value};
use std::{
    sync::{Arc, Mutex},
    time::Duration,
};

pub struct C04;

fn msg_bytes(k: u64, size: usize) -> Vec<u8> {
    (0..size).map(|j| ((k as usize).wrapping_mul(131).wrapping_add(j.wrapping_mul(7)) >> 1) as u8 ^ (j >> 8) as u8).collect()
}

#[derive(Default)]
struct World {
    /// messages whose send call returned Ok, in order: (index, size)
    accepted: Vec<(u64, usize)>,
    /// legal messages in the order they were handed to the substream
    handed: Vec<(u64, usize)>,
    sender_done: bool,
    sender_note: Option<String>,
    received: Vec<Vec<u8>>,
    receiver_end: Option<String>,
    raw_injected: bool,
}

fn codec_of(v: &Value) -> ProtocolCodec {
    match v["kind"].as_str().unwrap_or("varint") {
        "identity" => ProtocolCodec::Identity(v["n"].as_u64().unwrap_or(32) as usize),
        _ => ProtocolCodec::UnsignedVarint(v["max"].as_u64().map(|m| m as usize)),
    }
}

impl Prop for C04 {
    fn id(&self) -> &'static str {
        "C04"
    }

    fn budget(&self, tier: Tier) -> Budget {
        match tier {
            Tier::Quick => Budget { runs: 6000, wall_s: 60.0 },
            Tier::Thorough => Budget { runs: 300_000, wall_s: 540.0 },
        }
    }

    fn describe(&self) -> Describe {
        Describe {
            level: "exploration",
            rule: "each case = one seeded run of a sender and a receiver over a real yamux stream pair on the simulated carrier: codec (fixed-size frames below/at/above 1024 bytes; varint with and without maximum), materialised message sizes (0, 1, max-1, max, max+1, larger than the 256 KiB flow-control window and the 64 KiB back-pressure boundary), send API per message (Sink send, feed+flush, send_framed), receiver stall pattern, optionally a malformed length prefix injected as raw bytes, carrier knobs, scheduler kind; non-trivial = scheduler had >=1 choice point; distinct = distinct trace hash".into(),
            real: vec!["substream::Substream (Sink, Stream, send_framed)", "transport::tcp::Substream", "codec framing (identity, unsigned-varint)", "yamux Connection/Control/Stream (flow control)"],
            stub: vec!["carrier (in-memory duplex pipe)", "task scheduler (seeded)", "clock"],
            assumptions: vec![
                "both yamux connection tasks keep running after the sender stopped: they are 'the transport'",
                "the never-allocates-more-than-max clause is not measured (would need an allocator hook); malformed prefixes are checked for error/end-of-stream and no panic",
            ],
        }
    }

    fn gen(&self, seed: u64, _tier: Tier) -> Value {
        let mut rng = Rng::fork(seed, "c04-gen");
        let codec = match rng.below(8) {
            0 => json!({"kind": "identity", "n": *rng.pick(&[1u64, 10, 1023, 1024])}),
            1 => json!({"kind": "identity", "n": *rng.pick(&[1025u64, 4096, 70_000])}),
            // "no maximum" on the sending side; the receiving side keeps a (large) maximum so that a
            // corrupted stream ends in an error instead of an allocation abort of the whole process
            2 => json!({"kind": "varint", "max": 3_000_000u64, "sender_unlimited": true}),
            3 => json!({"kind": "varint", "max": *rng.pick(&[1u64, 127, 128, 16_384])}),
            _ => json!({"kind": "varint", "max": *rng.pick(&[1024u64, 70_000, 400_000, 1_100_000])}),
        };
        let mut ops = Vec::new();
        let n = rng.range(1, 8);
        let mut total = 0u64;
        for k in 0..n {
            let size = if codec["kind"] == "identity" {
                let nn = codec["n"].as_u64().unwrap();
                match rng.below(8) {
                    0 => nn + 1,
                    1 => nn.saturating_sub(1),
                    _ => nn,
                }
            } else {
                let max = codec["max"].as_u64().unwrap_or(1_000_000);
                match rng.below(12) {
                    0 => 0,
                    1 => 1,
                    2 => max,
                    3 => max + 1,
                    4 => max.saturating_sub(1),
                    5 => 262_144.min(max),
                    6 => 300_000.min(max),
                    7 => 65_536.min(max),
                    8 => 600_000.min(max),
                    _ => rng.range(1, max.min(5000)),
                }
            };
            if total + size > 2_500_000 {
                break;
            }
            total += size;
            ops.push(json!({"k": k, "size": size, "api": *rng.pick(&["send", "send", "feed", "framed"]), "flush_after": rng.chance(1, 2)}));
        }
        let raw = if rng.chance(1, 8) {
            json!(*rng.pick(&["varint_10_bytes", "prefix_over_max", "prefix_huge", "truncated_body", "varint_unterminated", "varint_unterminated_ff", "varint_9_then_end"]))
        } else {
            Value::Null
        };
        json!({
            "property": "C04",
            "seed": seed,
            "sched": SchedKind::gen(&mut rng, 3000),
            "carrier": CarrierKnobs::gen(&mut rng),
            "codec": codec,
            "ops": ops,
            "raw": raw,
            "stalls_ms": (0..4).map(|_| *rng.pick(&[0u64, 0, 1, 50, 3000])).collect::<Vec<_>>(),
            "split": *rng.pick(&[1024u64, 16_384, 65_536]),
        })
    }

    /// Flow-control window edge sweep: a first message leaves 0..6 bytes of credit in yamux's
    /// 256 KiB receive window while the receiver does not read yet; the next message's length
    /// prefix (1, 2 or 3 bytes) then arrives split in two pieces with a poll in between (seeded
    /// change C04-6: the prefix cursor kept in a local variable).
    fn systematic(&self, tier: Tier) -> Vec<Value> {
        let mut v = Vec::new();
        let seconds: &[u64] = if tier == Tier::Quick { &[1, 127, 128, 200, 16_384] } else { &[1, 127, 128, 200, 16_383, 16_384, 70_000, 262_144] };
        let mut k = 0u64;
        for left in 0..=6u64 {
            for second in seconds {
                for api in ["framed", "send"] {
                    k += 1;
                    // a message of 16 384 .. 2 097 151 bytes carries a 3-byte prefix
                    let first = 262_144 - left - 3;
                    v.push(json!({
                        "property": "C04", "seed": 9_040_000 + k, "sched": {"kind": "fifo"},
                        "carrier": {"max_chunk": 65536, "short_write": false, "pending_pct": 0, "window": 1 << 22},
                        "codec": {"kind": "varint", "max": 400_000},
                        "ops": [
                            {"k": 0, "size": first, "api": api, "flush_after": true},
                            {"k": 1, "size": *second, "api": api, "flush_after": true},
                            {"k": 2, "size": 5, "api": api, "flush_after": true},
                        ],
                        "raw": Value::Null,
                        "stalls_ms": [3000, 0, 0, 0],
                        "split": 16_384,
                    }));
                }
            }
        }
        v
    }

    fn run(&self, case: &Value, verbose: bool) -> RunOutput {
        let case = case.clone();
        let seed = case["seed"].as_u64().unwrap_or(0);
        let sched = SchedKind::from_json(&case["sched"]);
        run_sim(seed, sched, Duration::from_secs(120), 30_000_000, verbose, move |handle: Handle| {
            let knobs = CarrierKnobs::from_json(&case["carrier"]);
            let (a, b, _wires) = duplex(&handle, seed, &knobs);
            let world = Arc::new(Mutex::new(World::default()));
            let mut ycfg = YamuxConfig::default();
            ycfg.set_split_send_size(case["split"].as_u64().unwrap_or(16_384) as usize);
            let codec = codec_of(&case["codec"]);
            // yamux connection tasks
            let (mut control_a, mut conn_a) = Control::new(Connection::new(a, ycfg.clone(), Mode::Client));
            let (_control_b, mut conn_b) = Control::new(Connection::new(b, ycfg, Mode::Server));
            let ha = handle.clone();
            handle.spawn(1, "yamux-a", async move {
                loop {
                    match conn_a.next().await {
                        Some(Ok(_s)) => {}
                        other => {
                            ha.event(format!("yamux-a ended: {:?}", other.map(|r| r.map(|_| ()))));
                            break;
                        }
                    }
                }
            });
            let (in_tx, mut in_rx) = tokio::sync::mpsc::unbounded_channel();
            let hb = handle.clone();
            handle.spawn(2, "yamux-b", async move {
                // the control handle must outlive the connection or yamux closes it
                let _keep = _control_b;
                loop {
                    match conn_b.next().await {
                        Some(Ok(s)) => {
                            let _ = in_tx.send(s);
                        }
                        other => {
                            hb.event(format!("yamux-b ended: {:?}", other.map(|r| r.map(|_| ()))));
                            break;
                        }
                    }
                }
            });
            let ops: Vec<Value> = case["ops"].as_array().cloned().unwrap_or_default();
            let raw = case["raw"].clone();
            let max = match codec {
                ProtocolCodec::UnsignedVarint(m) => m,
                _ => None,
            };
            let unlimited_sender = case["codec"]["sender_unlimited"].as_bool().unwrap_or(false);
            // sender
            {
                let world = world.clone();
                let h = handle.clone();
                handle.spawn(1, "sender", async move {
                    let stream = match control_a.open_stream().await {
                        Ok(s) => s,
                        Err(e) => {
                            world.lock().unwrap().sender_note = Some(format!("open_stream: {e:?}"));
                            world.lock().unwrap().sender_done = true;
                            return;
                        }
                    };
                    let sender_codec = if unlimited_sender { ProtocolCodec::UnsignedVarint(None) } else { codec };
                    let mut sub = litep2p::verif::substream_over_yamux(peer_id(seed, 2), 0, stream, sender_codec);
                    let mut fed: Vec<(u64, usize)> = Vec::new();
                    for op in ops {
                        let k = op["k"].as_u64().unwrap_or(0);
                        let size = op["size"].as_u64().unwrap_or(0) as usize;
                        let data = Bytes::from(msg_bytes(k, size));
                        let legal = match codec {
                            ProtocolCodec::Identity(n) => size == n,
                            ProtocolCodec::UnsignedVarint(m) => m.map_or(true, |m| size <= m),
                            _ => true,
                        };
                        let api = op["api"].as_str().unwrap_or("send");
                        if legal {
                            world.lock().unwrap().handed.push((k, size));
                        }
                        // send_framed writes to the stream directly; a correct user flushes the
                        // sink before switching to it (mixing unflushed sink items with direct
                        // writes is outside the explored space)
                        if api == "framed" && !fed.is_empty() {
                            if let Err(e) = SinkExt::<Bytes>::flush(&mut sub).await {
                                world.lock().unwrap().sender_note = Some(format!("flush before framed send: {e:?}"));
                                break;
                            }
                            world.lock().unwrap().accepted.extend(fed.drain(..));
                        }
                        let r: Result<(), String> = match api {
                            "framed" => sub.send_framed(data).await.map_err(|e| format!("{e:?}")),
                            "feed" => {
                                let r = sub.feed(data).await.map_err(|e| format!("{e:?}"));
                                if r.is_ok() {
                                    fed.push((k, size));
                                }
                                if r.is_ok() && op["flush_after"].as_bool().unwrap_or(true) {
                                    let f = SinkExt::<Bytes>::flush(&mut sub).await.map_err(|e| format!("{e:?}"));
                                    if f.is_ok() {
                                        world.lock().unwrap().accepted.extend(fed.drain(..));
                                    }
                                    f
                                } else {
                                    r
                                }
                            }
                            _ => {
                                let r = sub.send(data).await.map_err(|e| format!("{e:?}"));
                                if r.is_ok() {
                                    // send() flushes everything queued before as well
                                    world.lock().unwrap().accepted.extend(fed.drain(..));
                                }
                                r
                            }
                        };
                        match (&r, legal) {
                            (Ok(()), true) => {
                                if api != "feed" {
                                    world.lock().unwrap().accepted.push((k, size));
                                }
                            }
                            (Ok(()), false) => {
                                h.violation("c04:oversize-accepted", format!("message {k} of {size} bytes is outside the codec limit ({codec:?}) but {api} returned Ok"));
                                return;
                            }
                            (Err(e), true) => {
                                world.lock().unwrap().sender_note = Some(format!("message {k} ({size} bytes, {api}): {e}"));
                                break;
                            }
                            (Err(_), false) => h.probe("illegal-size-refused"),
                        }
                    }
                    // whatever was fed but never flushed is flushed now
                    if !fed.is_empty() {
                        if SinkExt::<Bytes>::flush(&mut sub).await.is_ok() {
                            world.lock().unwrap().accepted.extend(fed.drain(..));
                        }
                    }
                    // without a configured maximum any length is legal, so a huge prefix is only
                    // "malformed" when the codec has a maximum (and would abort the process on
                    // allocation otherwise)
                    let raw_kind = match raw.as_str() {
                        Some("prefix_huge") | Some("prefix_over_max") | Some("varint_10_bytes") | Some("varint_unterminated") | Some("varint_unterminated_ff") | Some("varint_9_then_end") if max.is_none() => None,
                        other => other,
                    };
                    if let Some(kind) = raw_kind {
                        use tokio::io::AsyncWriteExt;
                        let bytes: Vec<u8> = match kind {
                            "varint_10_bytes" => vec![0xff, 0xff, 0xff, 0xff, 0xff, 0xff, 0xff, 0xff, 0xff, 0x7f, 1, 2, 3],
                            // ten and more bytes that all carry the continuation bit, then data
                            "varint_unterminated" => [vec![0x80u8; 10], vec![1, 2]].concat(),
                            "varint_unterminated_ff" => [vec![0xffu8; 12], vec![0x01, 7, 7, 7]].concat(),
                            // nine continuation bytes and nothing more (the stream then just stays open)
                            "varint_9_then_end" => vec![0x80u8; 9],
                            "prefix_over_max" => {
                                let mut b = unsigned_varint_encode(max.unwrap_or(1 << 40) as u64 + 1);
                                b.extend_from_slice(&[7u8; 64]);
                                b
                            }
                            "prefix_huge" => {
                                let mut b = unsigned_varint_encode(u64::MAX >> 1);
                                b.extend_from_slice(&[9u8; 16]);
                                b
                            }
                            _ => {
                                let mut b = unsigned_varint_encode(50);
                                b.extend_from_slice(&[1u8; 10]);
                                b
                            }
                        };
                        let _ = sub.write_all(&bytes).await;
                        let _ = AsyncWriteExt::flush(&mut sub).await;
                        world.lock().unwrap().raw_injected = true;
                    }
                    world.lock().unwrap().sender_done = true;
                    // the sender never polls the substream again; it only keeps it alive
                    tokio::time::sleep(Duration::from_secs(100)).await;
                    drop(sub);
                });
            }
            // receiver
            {
                let world = world.clone();
                let h = handle.clone();
                let stalls: Vec<u64> = case["stalls_ms"].as_array().map(|a| a.iter().map(|x| x.as_u64().unwrap_or(0)).collect()).unwrap_or_default();
                handle.spawn(2, "receiver", async move {
                    let Some(stream) = in_rx.recv().await else {
                        world.lock().unwrap().receiver_end = Some("no inbound stream".into());
                        return;
                    };
                    let mut sub = litep2p::verif::substream_over_yamux(peer_id(seed, 1), 0, stream, codec);
                    let mut i = 0usize;
                    loop {
                        if !stalls.is_empty() && stalls[i % stalls.len()] > 0 {
                            tokio::time::sleep(Duration::from_millis(stalls[i % stalls.len()])).await;
                        }
                        i += 1;
                        match sub.next().await {
                            Some(Ok(m)) => world.lock().unwrap().received.push(m.to_vec()),
                            Some(Err(e)) => {
                                world.lock().unwrap().receiver_end = Some(format!("error: {e:?}"));
                                break;
                            }
                            None => {
                                world.lock().unwrap().receiver_end = Some("end of stream".into());
                                break;
                            }
                        }
                        let done = {
                            let w = world.lock().unwrap();
                            w.sender_done && !w.raw_injected && w.received.len() >= w.accepted.len() && w.received.len() > 0
                        };
                        if done {
                            h.stop();
                            // keep the substream alive until the run is torn down
                            futures::future::pending::<()>().await;
                        }
                    }
                    // the stream ended on this side; the sender may still be inside its last
                    // call: let it return (or run into the horizon) before the run is judged
                    loop {
                        if world.lock().unwrap().sender_done {
                            break;
                        }
                        tokio::time::sleep(Duration::from_millis(10)).await;
                    }
                    h.stop();
                });
            }
            // stop early when the sender is done and nothing was accepted
            {
                let world = world.clone();
                let h = handle.clone();
                handle.spawn(0, "watch", async move {
                    loop {
                        tokio::time::sleep(Duration::from_millis(500)).await;
                        let w = world.lock().unwrap();
                        if w.sender_done && w.accepted.is_empty() && !w.raw_injected {
                            drop(w);
                            h.stop();
                            return;
                        }
                    }
                });
            }
            let h = handle.clone();
            Box::new(move || {
                let w = world.lock().unwrap();
                // order and content of what was received
                for (i, m) in w.received.iter().enumerate() {
                    // a message may be received before its send/flush call has returned (back-
                    // pressure flushes inside poll_ready): compare against the order in which the
                    // messages were handed over
                    let Some((k, size)) = w.handed.get(i).cloned() else { continue };
                    if m.len() != size || *m != msg_bytes(k, size) {
                        h.violation("c04:wrong-message-delivered", format!("message #{i} received with {} bytes differs from message {k} ({size} bytes) that was sent at that position", m.len()));
                        return;
                    }
                }
                if let Some(n) = &w.sender_note {
                    h.violation("c04:legal-send-failed", format!("sender: {n}"));
                    return;
                }
                if !w.sender_done {
                    h.violation("c04:send-never-completes", format!("sender still blocked at the horizon: {} accepted, receiver got {} (receiver keeps reading)", w.accepted.len(), w.received.len()));
                    return;
                }
                if w.received.len() < w.accepted.len() {
                    h.violation(
                        "c04:completed-send-not-delivered",
                        format!("{} messages were reported sent/flushed, the receiver obtained {} (first missing: #{} of {} bytes); receiver state: {:?}", w.accepted.len(), w.received.len(), w.received.len(), w.accepted[w.received.len()].1, w.receiver_end),
                    );
                    return;
                }
                if w.received.len() > w.accepted.len() && !w.raw_injected {
                    h.violation("c04:extra-message-delivered", format!("{} accepted, {} received", w.accepted.len(), w.received.len()));
                    return;
                }
                if w.raw_injected {
                    // after the malformed prefix the receiver must have ended (error or EOS), not
                    // produced a bogus message beyond the accepted ones
                    if w.received.len() > w.accepted.len() {
                        let extra = &w.received[w.accepted.len()];
                        if max.map_or(false, |m| extra.len() > m) {
                            h.violation("c04:oversize-message-delivered", format!("malformed prefix: receiver produced a message of {} bytes, maximum {:?}", extra.len(), max));
                            return;
                        }
                    }
                    h.probe("malformed-prefix-survived");
                }
                h.probe("roundtrip-verified");
            })
        })
    }
}

fn unsigned_varint_encode(mut n: u64) -> Vec<u8> {
    let mut v = Vec::new();
    loop {
        let b = (n & 0x7f) as u8;
        n >>= 7;
        if n == 0 {
            v.push(b);
            return v;
        }
        v.push(b | 0x80);
    }
}
