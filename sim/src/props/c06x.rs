//! C06 sub-scenario "clone": capacity accounting when one peer id shows up from two hosts.
//!
//! Node 1 (A) has connection limits. Hosts 2, 3, 4 (B, B', B'': one key pair on three hosts - a
//! restarted or re-homed peer as A sees it) have none. They connect to A and A dials them at
//! scripted instants, so A's per-peer rule (at most two connections per peer) refuses some
//! connections while the global limits still have room. After all activity has stopped and every
//! connection has idled out, as many fresh peers as the limit allows connect to A (or A dials
//! them) at the same instant: A is below its limits, so every one of them must be established -
//! each refused surplus connection must have given its slot back.
use crate::node::{self, base_config, full_addr, gen_node_knobs, listen_addr, node_ip, peer_id, with_p2p};
use crate::props::conn::{push, spawn_app_loop, Log, NodeCmd, Probe, ProbeCmd, K};
use crate::rng::Rng;
use crate::sim::{run_sim, vnow, Handle, RunOutput, SchedKind};
use crate::simnet::{NetKnobs, SimNet};
use litep2p::{Litep2p, ProtocolName};
use serde_json::{json, Value};
use std::{
    sync::{Arc, Mutex},
    time::Duration,
};
use tokio::sync::mpsc::{unbounded_channel, UnboundedSender};

pub fn gen_clone(seed: u64, rng: &mut Rng) -> Value {
    let mut knobs = gen_node_knobs(rng);
    knobs["keep_alive_ms"] = json!(*rng.pick(&[500u64, 3000, 10_000]));
    let max_in = *rng.pick(&[2u64, 3, 3, 4]);
    let max_out = if rng.chance(1, 2) { Some(rng.range(1, 2)) } else { None };
    let mut ops = Vec::new();
    let span = *rng.pick(&[50u64, 400, 3000]);
    for _ in 0..rng.range(3, 20) {
        let at = 20 + rng.below(span);
        match rng.below(10) {
            // B / B' connect to A
            0..=4 => ops.push(json!({"at_ms": at, "op": "dial_addr", "node": 2 + rng.below(3), "to": 1})),
            // A dials the peer id of B at the address of B or B'
            5..=7 => ops.push(json!({"at_ms": at, "op": "dial_addr", "node": 1, "to": 2 + rng.below(3)})),
            8 => ops.push(json!({"at_ms": at, "op": "dial", "node": 1, "to": 2})),
            _ => ops.push(json!({"at_ms": at, "op": "open", "node": 1 + rng.below(4), "proto": 0, "hold_ms": *rng.pick(&[0u64, 200, 2000])})),
        }
    }
    ops.sort_by_key(|o| o["at_ms"].as_u64().unwrap_or(0));
    json!({
        "property": "C06",
        "seed": seed,
        "mode": "clone",
        "sched": SchedKind::gen(rng, 3000),
        "net": NetKnobs::gen(rng),
        "node_knobs": knobs,
        "max_in": max_in,
        "max_out": max_out,
        "final_inbound": rng.chance(2, 3),
        "ops": ops,
        "faults": [],
    })
}

pub fn run_clone(case: &Value, verbose: bool) -> RunOutput {
    let case = case.clone();
    let seed = case["seed"].as_u64().unwrap_or(0);
    let sched = SchedKind::from_json(&case["sched"]);
    let ops: Vec<Value> = case["ops"].as_array().cloned().unwrap_or_default();
    let knobs = case["node_knobs"].clone();
    let last_ms = ops.iter().map(|o| o["at_ms"].as_u64().unwrap_or(0) + o["hold_ms"].as_u64().unwrap_or(0)).max().unwrap_or(0);
    let conn_open = knobs["conn_open_timeout_ms"].as_u64().unwrap_or(10_000);
    let sub_open = knobs["substream_open_timeout_ms"].as_u64().unwrap_or(5_000);
    let keep_alive = knobs["keep_alive_ms"].as_u64().unwrap_or(5_000);
    let t_final = last_ms + 2 * conn_open + 2 * sub_open + 2 * keep_alive + 5_000;
    let horizon_ms = t_final + 2 * conn_open + 5_000;
    let final_inbound = case["final_inbound"].as_bool().unwrap_or(true);
    run_sim(seed, sched, Duration::from_millis(horizon_ms), 4_000_000, verbose, move |handle: Handle| {
        let net = SimNet::new(handle.clone(), seed, NetKnobs::from_json(&case["net"]));
        net.install();
        let log: Log = Arc::new(Mutex::new(Vec::new()));
        let mut node_tx: Vec<Option<UnboundedSender<NodeCmd>>> = vec![None];
        let mut probe_tx: Vec<Option<UnboundedSender<ProbeCmd>>> = vec![None];
        // peer id owner of each host: 1 -> 1; 2, 3, 4 -> 2 (clones); fresh peers 5.. -> themselves
        let ident = |i: usize| if i == 3 || i == 4 { 2 } else { i };
        let fresh = if final_inbound { case["max_in"].as_u64().unwrap_or(1) } else { case["max_out"].as_u64().unwrap_or(1) }.clamp(1, 6) as usize;
        let total = 4 + fresh;
        for i in 1..=total {
            node::CURRENT_NODE.with(|c| c.set(i));
            let mut k = knobs.clone();
            k["identity"] = json!(ident(i));
            if i == 1 {
                k["max_in"] = case["max_in"].clone();
                k["max_out"] = case["max_out"].clone();
            } else {
                k["max_in"] = Value::Null;
                k["max_out"] = Value::Null;
            }
            let (tx, rx) = unbounded_channel();
            let b = base_config(&handle, seed, i, &k).with_user_protocol(Box::new(Probe { node: i, idx: 0, name: ProtocolName::from("/vsim/probe/a"), seed, nodes_total: total, log: log.clone(), handle: handle.clone(), rx, inbound_hold_ms: 50, half_close: 0 }));
            let l = match Litep2p::new(b.build()) {
                Ok(l) => l,
                Err(e) => {
                    handle.violation("harness:litep2p-new", format!("{e:?}"));
                    return Box::new(|| {});
                }
            };
            node_tx.push(Some(spawn_app_loop(&handle, log.clone(), seed, total, i, l)));
            probe_tx.push(Some(tx));
        }
        node::CURRENT_NODE.with(|c| c.set(0));
        let addr_of = move |host: usize| with_p2p(listen_addr(host), peer_id(seed, ident(host)));
        let _ = full_addr;
        let fin: Arc<Mutex<Option<(u64, bool)>>> = Arc::new(Mutex::new(None));
        {
            let h = handle.clone();
            let net2 = net.clone();
            let fin = fin.clone();
            handle.spawn(0, "ops-driver", async move {
                let start = tokio::time::Instant::now();
                for o in ops {
                    tokio::time::sleep_until(start + Duration::from_millis(o["at_ms"].as_u64().unwrap_or(0))).await;
                    let i = (o["node"].as_u64().unwrap_or(1) as usize).clamp(1, 4);
                    let j = (o["to"].as_u64().unwrap_or(1) as usize).clamp(1, 4);
                    match o["op"].as_str().unwrap_or("") {
                        "dial_addr" if i != j => {
                            let _ = node_tx[i].as_ref().unwrap().send(NodeCmd::DialAddr { addr: addr_of(j), peer: Some(ident(j)) });
                        }
                        "dial" if i != j => {
                            let _ = node_tx[i].as_ref().unwrap().send(NodeCmd::AddAddr { peer: ident(j), addr: addr_of(j) });
                            let _ = node_tx[i].as_ref().unwrap().send(NodeCmd::Dial { peer: ident(j), fin: false });
                        }
                        "open" => {
                            let peer = if i == 1 { 2 } else { 1 };
                            let _ = probe_tx[i].as_ref().unwrap().send(ProbeCmd::Open { peer, hold_ms: o["hold_ms"].as_u64().unwrap_or(0) });
                        }
                        _ => {}
                    }
                }
                tokio::time::sleep_until(start + Duration::from_millis(t_final)).await;
                // A must be idle: no live connection touches it and the last one ended >= 2 s ago
                let now_ns = vnow().as_nanos() as u64;
                let table = net2.conn_table();
                let a_idle = table.iter().filter(|c| c.1.ip() == node_ip(1) || c.2.ip() == node_ip(1)).all(|c| c.3.is_some_and(|d| d + 2_000_000_000 <= now_ns));
                h.event(format!("final phase: a_idle={a_idle} connections so far={}", table.len()));
                *fin.lock().unwrap() = Some((now_ns, a_idle));
                if a_idle {
                    for c in 5..=total {
                        let (from, to) = if final_inbound { (c, 1) } else { (1, c) };
                        let _ = node_tx[from].as_ref().unwrap().send(NodeCmd::DialAddr { addr: addr_of(to), peer: Some(to) });
                    }
                }
            });
        }
        let h = handle.clone();
        let (max_in, max_out) = (case["max_in"].as_u64(), case["max_out"].as_u64());
        Box::new(move || {
            let log = log.lock().unwrap().clone();
            let Some((t0, idle)) = *fin.lock().unwrap() else { return };
            // how many surplus connections did A's per-peer rule see? (reach measure)
            let est_a = log.iter().filter(|r| r.node == 1 && matches!(r.k, K::AppEstablished { .. })).count();
            let table = net.conn_table();
            let reached_a = table.iter().filter(|c| c.1.ip() == node_ip(1) || c.2.ip() == node_ip(1)).count();
            if reached_a > est_a + 1 {
                h.probe("clone-surplus-connections-refused");
            }
            if !idle {
                h.probe("clone-final-not-idle");
                return;
            }
            h.probe("clone-final-dial");
            let after: Vec<_> = log.iter().filter(|r| r.t >= t0).collect();
            let limits = format!("max_incoming_connections = {max_in:?}, max_outgoing_connections = {max_out:?}");
            for c in 5..=total {
                let (from, to) = if final_inbound { (c, 1usize) } else { (1usize, c) };
                let want = addr_of(to).to_string();
                let call = after.iter().find(|r| r.node == from && matches!(&r.k, K::DialCall { addr: Some(a), .. } if *a == want));
                let established = |n: usize, p: usize| after.iter().any(|r| r.node == n && matches!(&r.k, K::AppEstablished { peer, .. } if *peer == p));
                match call.map(|r| &r.k) {
                    Some(K::DialCall { ok: false, err, .. }) => {
                        h.violation("c06:capacity-leaked", format!("node 1 ({limits}) holds no connection since >= 2 s and {fresh} fresh peers connect at once, yet dial_address(n{to}) by n{from} returned {err}"));
                        return;
                    }
                    Some(K::DialCall { ok: true, .. }) => {
                        if !(established(from, to) && established(to, from)) {
                            h.violation("c06:capacity-leaked", format!("node 1 ({limits}) holds no connection since >= 2 s and {fresh} fresh peers connect at once, yet the connection n{from} -> n{to} was not established on both sides (n{from}: {}, n{to}: {})", established(from, to), established(to, from)));
                            return;
                        }
                    }
                    _ => {
                        h.violation("harness:clone-no-final-call", format!("final dial n{from} -> n{to} not recorded"));
                        return;
                    }
                }
            }
            h.probe("clone-final-established");
        })
    })
}
