//! C09 — idle connections close after the keep-alive timeout, busy ones are kept.
//!
//! Two nodes. Only node 1 has the keep-alive timeout under test (`T`); node 2 has one hour, so the
//! closing side is known and the expected instant can be computed exactly from the recorded
//! activity of node 1's protocols: `E = max(A_p + T over all protocols p, D)` where `A_p` is the
//! last instant protocol `p` requested or received a substream (or learned of the connection) and
//! `D` the instant the last keep-alive substream or pending open on node 1 was released.
use crate::node::{self, base_config, full_addr, gen_node_knobs, peer_id};
use crate::props::conn::{push, spawn_app_loop, Log, NodeCmd, Probe, ProbeCmd, Rec, K};
use crate::rng::Rng;
use crate::runner::{Budget, Describe, Prop, Tier};
use crate::sim::{run_sim, vnow, Handle, RunOutput, SchedKind};
use crate::simnet::{NetKnobs, SimNet};
use litep2p::{
    protocol::libp2p::{identify, ping},
    Litep2p, ProtocolName,
};
use serde_json::{json, Value};
use std::{
    sync::{Arc, Mutex},
    time::Duration,
};
use tokio::sync::mpsc::{unbounded_channel, UnboundedSender};

pub struct C09;

impl Prop for C09 {
    fn id(&self) -> &'static str {
        "C09"
    }

    fn budget(&self, tier: Tier) -> Budget {
        match tier {
            Tier::Quick => Budget { runs: 15_000, wall_s: 60.0 },
            Tier::Thorough => Budget { runs: 500_000, wall_s: 540.0 },
        }
    }

    fn describe(&self) -> Describe {
        Describe {
            level: "exploration",
            rule: "each case = one seeded run of two complete litep2p nodes (probe user protocols with keep-alive, optionally ping and identify which must not prolong the connection) on SimNet with a materialised activity script on the virtual clock: substream opens by either side at chosen instants (before / exactly at / after the expiry), hold times from 0 to several T, one or two overlapping connections, received substreams optionally half-closed (write side shut down, object kept for reading) for the hold time; non-trivial = scheduler had >=1 choice point; distinct = distinct trace hash".into(),
            real: vec!["Litep2p", "TransportManager", "TcpTransport/TcpConnection (permit handling)", "WebSocketTransport/WebSocketConnection + tokio-tungstenite (runs with the second transport)", "ProtocolSet", "TransportService + KeepAliveTracker", "ConnectionHandle/Permit", "ping", "identify", "NotificationProtocol and RequestResponseProtocol (built-in protocols mode)", "Noise", "yamux"],
            stub: vec!["socket layer (SimNet, no faults in this scenario)", "clock (std Instant and tokio timers on one virtual clock)", "task scheduler (seeded)"],
            assumptions: vec![
                "the closing side is node 1 by construction (node 2: keep-alive one hour)",
                "probe mode: the exact expected instant is computed from the probes' own records; built-in protocols mode (a quarter of the runs): the activity instants of the real notification / request-response protocols are bracketed between a command and the outcome the user sees, the oracle is two-sided with that bracket (see DESIGN.md C09)",
                "tolerance: 3 ms early (timer granularity 1 ms), 150 ms late (ping/identify substream negotiation in flight at the expiry instant holds an opening permit for a few round trips)",
            ],
        }
    }

    fn gen(&self, seed: u64, _tier: Tier) -> Value {
        // a quarter of the runs keep the connection busy with the real notification and
        // request-response protocols instead of probe user protocols (independent stream)
        if Rng::fork(seed, "c09-mode").chance(1, 4) {
            return crate::props::c09b::gen(seed);
        }
        let mut rng = Rng::fork(seed, "c09-gen");
        let t_ms = *rng.pick(&[1000u64, 2000, 3000, 5000, 10_000, 20_000]);
        let mut knobs = gen_node_knobs(&mut rng);
        knobs["keep_alive_ms"] = json!(t_ms);
        let mut ops = Vec::new();
        let connect_at = 50u64;
        let double = rng.chance(1, 4);
        let nact = rng.below(6);
        let mut t = connect_at + 400;
        for _ in 0..nact {
            // next activity relative to the previous one: well inside, around, or beyond T
            let gap = match rng.below(12) {
                0 => t_ms.saturating_sub(400),
                1 => t_ms.saturating_sub(60),
                2 => t_ms.saturating_sub(2),
                3 => t_ms,
                4 => t_ms + 30,
                5 | 6 | 7 => rng.below(t_ms / 2 + 1),
                8 | 9 => rng.below(50),
                10 => rng.range(t_ms / 2, t_ms.saturating_sub(100).max(t_ms / 2)),
                _ => rng.below(2 * t_ms),
            };
            t += gap;
            let hold = match rng.below(7) {
                0 => 0,
                1 => rng.below(100),
                2 => t_ms / 2,
                3 => t_ms,
                4 => t_ms + 500,
                5 => 3 * t_ms,
                _ => rng.below(5 * t_ms),
            };
            ops.push(json!({"at_ms": t, "op": "open", "node": 1 + rng.below(2), "proto": rng.below(2), "hold_ms": hold}));
        }
        json!({
            "property": "C09",
            "seed": seed,
            "t_ms": t_ms,
            "sched": SchedKind::gen(&mut rng, 3000),
            "net": {"lat_min_us": *rng.pick(&[50u64, 500]), "lat_jitter_us": *rng.pick(&[0u64, 100, 3000]), "max_chunk": *rng.pick(&[64u64, 4096, 65536]), "short_write": rng.chance(1, 3), "spurious_pending_pct": *rng.pick(&[0u64, 5]), "window": 1 << 20},
            "node_knobs": knobs,
            "ping": rng.chance(1, 2),
            "identify": rng.chance(1, 2),
            "double": double,
            "half_close": *rng.pick(&[0u64, 0, 1, 2]),
            "dialer": 1 + rng.below(2),
            "inbound_hold_ms": [*rng.pick(&[0u64, 30, 700, 4000, 30_000]), *rng.pick(&[0u64, 30, 700, 4000])],
            "ops": ops,
            "faults": [],
        })
    }

    fn run(&self, case: &Value, verbose: bool) -> RunOutput {
        if case["mode"] == "builtin" {
            return crate::props::c09b::run(case, verbose);
        }
        let case = case.clone();
        let seed = case["seed"].as_u64().unwrap_or(0);
        let sched = SchedKind::from_json(&case["sched"]);
        let t_ms = case["t_ms"].as_u64().unwrap_or(5000);
        let ops: Vec<Value> = case["ops"].as_array().cloned().unwrap_or_default();
        let last_ms = ops.iter().map(|o| o["at_ms"].as_u64().unwrap_or(0) + o["hold_ms"].as_u64().unwrap_or(0)).max().unwrap_or(0);
        let in_hold: Vec<u64> = case["inbound_hold_ms"].as_array().map(|a| a.iter().map(|x| x.as_u64().unwrap_or(50)).collect()).unwrap_or(vec![50, 50]);
        let horizon_ms = last_ms.max(1000) + in_hold.iter().cloned().max().unwrap_or(0) + 2 * t_ms + 10_000;
        run_sim(seed, sched, Duration::from_millis(horizon_ms), 3_000_000, verbose, move |handle: Handle| {
            let net = SimNet::new(handle.clone(), seed, NetKnobs::from_json(&case["net"]));
            net.install();
            let log: Log = Arc::new(Mutex::new(Vec::new()));
            let mut node_tx: Vec<Option<UnboundedSender<NodeCmd>>> = vec![None];
            let mut probe_tx: Vec<Vec<UnboundedSender<ProbeCmd>>> = vec![vec![]];
            for i in 1..=2usize {
                node::CURRENT_NODE.with(|c| c.set(i));
                let mut knobs = case["node_knobs"].clone();
                if i == 2 {
                    knobs["keep_alive_ms"] = json!(3_600_000u64);
                }
                let mut b = base_config(&handle, seed, i, &knobs);
                let mut txs = Vec::new();
                for (idx, name) in ["/vsim/probe/a", "/vsim/probe/b"].iter().enumerate() {
                    let (tx, rx) = unbounded_channel();
                    b = b.with_user_protocol(Box::new(Probe { node: i, idx, name: ProtocolName::from(*name), seed, nodes_total: 2, log: log.clone(), handle: handle.clone(), rx, inbound_hold_ms: in_hold[(i - 1).min(in_hold.len() - 1)], half_close: case["half_close"].as_u64().unwrap_or(0) }));
                    txs.push(tx);
                }
                if case["ping"].as_bool().unwrap_or(false) {
                    let (pc, pev) = ping::Config::default();
                    b = b.with_libp2p_ping(pc);
                    handle.spawn(i, "ping-events", async move {
                        let mut pev = pev;
                        while futures::StreamExt::next(&mut pev).await.is_some() {}
                    });
                }
                if case["identify"].as_bool().unwrap_or(false) {
                    let (ic, iev) = identify::Config::new("/vsim/1".to_string(), Some("vsim".to_string()));
                    b = b.with_libp2p_identify(ic);
                    handle.spawn(i, "identify-events", async move {
                        let mut iev = iev;
                        while futures::StreamExt::next(&mut iev).await.is_some() {}
                    });
                }
                let mut l = match Litep2p::new(b.build()) {
                    Ok(l) => l,
                    Err(e) => {
                        handle.violation("harness:litep2p-new", format!("{e:?}"));
                        return Box::new(|| {});
                    }
                };
                let j = 3 - i;
                l.add_known_address(peer_id(seed, j), std::iter::once(full_addr(seed, j)));
                node_tx.push(Some(spawn_app_loop(&handle, log.clone(), seed, 2, i, l)));
                probe_tx.push(txs);
            }
            node::CURRENT_NODE.with(|c| c.set(0));
            {
                let ops = ops.clone();
                let double = case["double"].as_bool().unwrap_or(false);
                let dialer = case["dialer"].as_u64().unwrap_or(1) as usize;
                handle.spawn(0, "ops-driver", async move {
                    let start = tokio::time::Instant::now();
                    tokio::time::sleep_until(start + Duration::from_millis(50)).await;
                    if double {
                        // single-address dials keep dialing while the inbound connection is
                        // accepted, which yields a primary and a secondary connection
                        for i in 1..=2 {
                            if let Some(tx) = &node_tx[i] {
                                let _ = tx.send(NodeCmd::DialAddr { addr: full_addr(seed, 3 - i), peer: Some(3 - i) });
                            }
                        }
                    } else if let Some(tx) = &node_tx[dialer.clamp(1, 2)] {
                        let _ = tx.send(NodeCmd::Dial { peer: 3 - dialer.clamp(1, 2), fin: false });
                    }
                    for o in ops {
                        tokio::time::sleep_until(start + Duration::from_millis(o["at_ms"].as_u64().unwrap_or(0))).await;
                        let i = (o["node"].as_u64().unwrap_or(1) as usize).clamp(1, 2);
                        let p = o["proto"].as_u64().unwrap_or(0) as usize % 2;
                        let _ = probe_tx[i][p].send(ProbeCmd::Open { peer: 3 - i, hold_ms: o["hold_ms"].as_u64().unwrap_or(0) });
                    }
                    futures::future::pending::<()>().await;
                });
            }
            let h = handle.clone();
            Box::new(move || {
                let log = log.lock().unwrap().clone();
                let end_ns = vnow().as_nanos() as u64;
                if let Some((c, d)) = check(&log, t_ms, end_ns, &h) {
                    h.violation(c, d);
                }
            })
        })
    }
}

fn check(log: &[Rec], t_ms: u64, end_ns: u64, h: &Handle) -> Option<(String, String)> {
    let t_ns = t_ms * 1_000_000;
    let ev1: Vec<&Rec> = log.iter().filter(|r| r.node == 1).collect();
    // the first connection period only: from the first ConnectionEstablished to the first
    // ConnectionClosed on node 1
    let te = ev1.iter().find(|r| matches!(r.k, K::AppEstablished { .. })).map(|r| r.t)?;
    let tc = ev1.iter().find(|r| matches!(r.k, K::AppClosed { .. })).map(|r| r.t);
    let window_end = tc.unwrap_or(end_ns);
    // establishments before the first close (second = secondary connection)
    let ests: Vec<u64> = ev1.iter().filter(|r| r.t <= window_end && matches!(r.k, K::AppEstablished { .. })).map(|r| r.t).collect();
    let mut e = 0u64;
    for t in ests.iter() {
        e = e.max(*t + t_ns);
    }
    let mut d = 0u64; // release of the last permit
    let mut unreleased = 0i64;
    for proto in 0..2usize {
        let mut a = ev1.iter().find(|r| matches!(&r.k, K::PEstablished { proto: p, .. } if *p == proto)).map(|r| r.t).unwrap_or(te);
        for r in ev1.iter().filter(|r| r.t <= window_end) {
            match &r.k {
                K::POpenCall { proto: p, id: Some(_), .. } if *p == proto => {
                    a = a.max(r.t);
                    unreleased += 1; // pending open holds a permit until answered
                }
                K::PSubOpened { proto: p, out_id, .. } if *p == proto => {
                    a = a.max(r.t);
                    if out_id.is_some() {
                        // the pending-open permit turns into the substream's lifetime permit
                    } else {
                        unreleased += 1;
                    }
                    d = d.max(r.t);
                }
                K::PSubFailure { proto: p, .. } if *p == proto => {
                    unreleased -= 1;
                    d = d.max(r.t);
                }
                K::PReleased { proto: p, .. } if *p == proto => {
                    unreleased -= 1;
                    d = d.max(r.t);
                }
                _ => {}
            }
        }
        e = e.max(a + t_ns);
    }
    h.probe(if ests.len() > 1 { "two-connections" } else { "one-connection" });
    let expected = e.max(d);
    let ts = |t: u64| format!("{:.3}s", t as f64 / 1e9);
    match tc {
        Some(tc) => {
            if unreleased > 0 {
                return Some(("c09:closed-while-substream-held".into(), format!("node 1 (keep-alive {t_ms} ms): connection closed at {} while {unreleased} keep-alive substream(s)/pending open(s) were still held", ts(tc))));
            }
            if tc + 3_000_000 < expected {
                return Some(("c09:closed-early".into(), format!("node 1 (keep-alive {t_ms} ms): connection closed at {} but last activity + timeout / last release is {}", ts(tc), ts(expected))));
            }
            if tc > expected + 150_000_000 {
                return Some(("c09:closed-late".into(), format!("node 1 (keep-alive {t_ms} ms): connection closed at {}, expected at {} (last activity + timeout / last release)", ts(tc), ts(expected))));
            }
            h.probe("closed-on-time");
            None
        }
        None => {
            if unreleased <= 0 && expected + 1_000_000_000 < end_ns {
                return Some(("c09:never-closed".into(), format!("node 1 (keep-alive {t_ms} ms): idle since {} (expected close) but still connected at the horizon {}", ts(expected), ts(end_ns))));
            }
            h.probe("still-held-at-horizon");
            None
        }
    }
}
