//! C09, built-in keep-alive protocols: the connection of node 1 (keep-alive `T`) is kept busy by the
//! real notification protocol (an open stream = two substreams) and the real request-response
//! protocol (a request whose response is withheld), not by probe user protocols. Node 2 has a
//! keep-alive of one hour, so the closing side is node 1.
//!
//! The instants at which the protocols touch the connection are not observable exactly, only
//! bracketed: an activity caused by a command lies between the command (either node's) and the
//! moment node 1's user sees its outcome. The oracle therefore checks
//!   * safety: the connection is not closed while node 1 certainly holds a substream (stream seen
//!     open and nobody asked to close it yet; request received and not answered yet),
//!   * not before: closed no earlier than `max(command + T over the successful commands, last
//!     release command)`,
//!   * liveness: closed no later than `max(last outcome seen + T, last release seen)` plus a slack
//!     of a few round trips.
use crate::node::{self, base_config, full_addr, gen_node_knobs, peer_id};
use crate::props::conn::{spawn_app_loop, Log, NodeCmd, K};
use crate::rng::Rng;
use crate::sim::{run_sim, vnow, Handle, RunOutput, SchedKind};
use crate::simnet::{NetKnobs, SimNet};
use futures::StreamExt;
use litep2p::{
    protocol::libp2p::{identify, ping},
    protocol::notification::{ConfigBuilder as NotifBuilder, NotificationEvent, NotificationHandle, ValidationResult},
    protocol::request_response::{ConfigBuilder as RrBuilder, DialOptions, RequestResponseEvent, RequestResponseHandle},
    Litep2p, ProtocolName,
};
use serde_json::{json, Value};
use std::{
    sync::{Arc, Mutex},
    time::Duration,
};
use tokio::sync::mpsc::{unbounded_channel, UnboundedReceiver, UnboundedSender};

#[derive(Clone, Debug)]
enum B {
    NCmdOpen { ok: bool },
    NCmdClose,
    NOpened,
    NClosed,
    NOpenFailure,
    RSend { id: String, ok: bool },
    RRecv { id: String },
    RAnswered { id: String },
    RResp { id: String },
    RFail { id: String },
}

type BLog = Arc<Mutex<Vec<(u64, usize, B)>>>;

fn blog(log: &BLog, h: &Handle, node: usize, b: B) {
    blog_at(log, h, node, vnow().as_nanos() as u64, b)
}

/// record with the instant at which the call was made (a command is logged after it returned)
fn blog_at(log: &BLog, h: &Handle, node: usize, t: u64, b: B) {
    h.event(format!("n{node} {b:?}"));
    log.lock().unwrap().push((t, node, b));
}

enum NCmd {
    Open,
    Close,
}

fn spawn_notif_user(handle: &Handle, log: BLog, seed: u64, i: usize, mut nh: NotificationHandle) -> UnboundedSender<NCmd> {
    let (tx, mut rx): (UnboundedSender<NCmd>, UnboundedReceiver<NCmd>) = unbounded_channel();
    let h = handle.clone();
    let peer = peer_id(seed, 3 - i);
    handle.spawn(i, "notif-user", async move {
        let mut open = true;
        loop {
            tokio::select! {
                biased;
                c = rx.recv(), if open => match c {
                    None => open = false,
                    Some(NCmd::Open) => {
                        let t0 = vnow().as_nanos() as u64;
                        let r = nh.open_substream(peer).await;
                        blog_at(&log, &h, i, t0, B::NCmdOpen { ok: r.is_ok() });
                    }
                    Some(NCmd::Close) => {
                        blog(&log, &h, i, B::NCmdClose);
                        nh.close_substream(peer).await;
                    }
                },
                ev = nh.next() => match ev {
                    None => break,
                    Some(NotificationEvent::NotificationStreamOpened { .. }) => blog(&log, &h, i, B::NOpened),
                    Some(NotificationEvent::NotificationStreamClosed { .. }) => blog(&log, &h, i, B::NClosed),
                    Some(NotificationEvent::NotificationStreamOpenFailure { .. }) => blog(&log, &h, i, B::NOpenFailure),
                    // (auto-accept only covers streams the local node asked for itself)
                    Some(NotificationEvent::ValidateSubstream { peer, .. }) => nh.send_validation_result(peer, ValidationResult::Accept),
                    Some(_) => {}
                },
            }
        }
    });
    tx
}

fn spawn_rr_user(handle: &Handle, log: BLog, seed: u64, i: usize, mut rh: RequestResponseHandle) -> UnboundedSender<u64> {
    let (tx, mut rx): (UnboundedSender<u64>, UnboundedReceiver<u64>) = unbounded_channel();
    let h = handle.clone();
    let peer = peer_id(seed, 3 - i);
    handle.spawn(i, "rr-user", async move {
        let mut open = true;
        // requests received and not answered yet: (answer at, id)
        let mut held: Vec<(tokio::time::Instant, litep2p::types::RequestId)> = Vec::new();
        loop {
            let next = held.iter().map(|x| x.0).min();
            tokio::select! {
                biased;
                c = rx.recv(), if open => match c {
                    None => open = false,
                    Some(hold_ms) => {
                        let t0 = vnow().as_nanos() as u64;
                        let r = rh.send_request(peer, hold_ms.to_le_bytes().to_vec(), DialOptions::Reject).await;
                        blog_at(&log, &h, i, t0, B::RSend { id: r.as_ref().map(|x| format!("{x:?}")).unwrap_or_default(), ok: r.is_ok() });
                    }
                },
                _ = async { tokio::time::sleep_until(next.unwrap()).await }, if next.is_some() => {
                    let now = tokio::time::Instant::now();
                    let mut k = 0;
                    while k < held.len() {
                        if held[k].0 <= now {
                            let (_, id) = held.remove(k);
                            blog(&log, &h, i, B::RAnswered { id: format!("{id:?}") });
                            rh.send_response(id, vec![1, 2, 3]);
                        } else {
                            k += 1;
                        }
                    }
                }
                ev = rh.next() => match ev {
                    None => break,
                    Some(RequestResponseEvent::RequestReceived { request_id, request, .. }) => {
                        blog(&log, &h, i, B::RRecv { id: format!("{request_id:?}") });
                        let mut b = [0u8; 8];
                        b.copy_from_slice(&request[..8.min(request.len())]);
                        held.push((tokio::time::Instant::now() + Duration::from_millis(u64::from_le_bytes(b)), request_id));
                    }
                    Some(RequestResponseEvent::ResponseReceived { request_id, .. }) => blog(&log, &h, i, B::RResp { id: format!("{request_id:?}") }),
                    Some(RequestResponseEvent::RequestFailed { request_id, .. }) => blog(&log, &h, i, B::RFail { id: format!("{request_id:?}") }),
                },
            }
        }
    });
    tx
}

pub fn gen(seed: u64) -> Value {
    let mut rng = Rng::fork(seed, "c09-builtin-gen");
    let t_ms = *rng.pick(&[1000u64, 2000, 3000, 5000, 10_000]);
    let mut knobs = gen_node_knobs(&mut rng);
    knobs["keep_alive_ms"] = json!(t_ms);
    let mut ops = Vec::new();
    let mut t = 450u64;
    for _ in 0..rng.range(1, 4) {
        let gap = match rng.below(10) {
            0 => t_ms.saturating_sub(400),
            1 => t_ms.saturating_sub(40),
            2 => t_ms,
            3 => t_ms + 40,
            4 | 5 | 6 => rng.below(t_ms / 2 + 1),
            7 => rng.below(60),
            _ => rng.below(2 * t_ms),
        };
        t += gap;
        let hold = match rng.below(7) {
            0 => rng.below(100),
            1 => t_ms / 2,
            2 => t_ms.saturating_sub(30),
            3 => t_ms + 30,
            4 => t_ms + 500,
            5 => 3 * t_ms,
            _ => rng.below(4 * t_ms),
        };
        let node = 1 + rng.below(2);
        if rng.chance(1, 2) {
            ops.push(json!({"at_ms": t, "op": "nopen", "node": node}));
            ops.push(json!({"at_ms": t + 300 + hold, "op": "nclose", "node": 1 + rng.below(2)}));
            t += 300 + hold + 400;
        } else {
            ops.push(json!({"at_ms": t, "op": "req", "node": node, "hold_ms": hold}));
        }
    }
    ops.sort_by_key(|o| o["at_ms"].as_u64().unwrap_or(0));
    json!({
        "property": "C09",
        "seed": seed,
        "mode": "builtin",
        "t_ms": t_ms,
        "sched": SchedKind::gen(&mut rng, 3000),
        "net": {"lat_min_us": *rng.pick(&[50u64, 500]), "lat_jitter_us": *rng.pick(&[0u64, 100, 3000]), "max_chunk": *rng.pick(&[64u64, 4096, 65536]), "short_write": rng.chance(1, 3), "spurious_pending_pct": *rng.pick(&[0u64, 5]), "window": 1 << 20},
        "node_knobs": knobs,
        "ping": rng.chance(1, 2),
        "identify": rng.chance(1, 2),
        "double": rng.chance(1, 5),
        "dialer": 1 + rng.below(2),
        "ops": ops,
        "faults": [],
    })
}

pub fn run(case: &Value, verbose: bool) -> RunOutput {
    let case = case.clone();
    let seed = case["seed"].as_u64().unwrap_or(0);
    let sched = SchedKind::from_json(&case["sched"]);
    let t_ms = case["t_ms"].as_u64().unwrap_or(5000);
    let ops: Vec<Value> = case["ops"].as_array().cloned().unwrap_or_default();
    let last_ms = ops.iter().map(|o| o["at_ms"].as_u64().unwrap_or(0) + o["hold_ms"].as_u64().unwrap_or(0)).max().unwrap_or(0);
    let horizon_ms = last_ms.max(1000) + 2 * t_ms + 10_000;
    run_sim(seed, sched, Duration::from_millis(horizon_ms), 3_000_000, verbose, move |handle: Handle| {
        let net = SimNet::new(handle.clone(), seed, NetKnobs::from_json(&case["net"]));
        net.install();
        let log: Log = Arc::new(Mutex::new(Vec::new()));
        let blg: BLog = Arc::new(Mutex::new(Vec::new()));
        let mut node_tx: Vec<Option<UnboundedSender<NodeCmd>>> = vec![None];
        let mut notif_tx: Vec<Option<UnboundedSender<NCmd>>> = vec![None];
        let mut rr_tx: Vec<Option<UnboundedSender<u64>>> = vec![None];
        for i in 1..=2usize {
            node::CURRENT_NODE.with(|c| c.set(i));
            let mut knobs = case["node_knobs"].clone();
            if i == 2 {
                knobs["keep_alive_ms"] = json!(3_600_000u64);
            }
            let (nc, nh) = NotifBuilder::new(ProtocolName::from("/vsim/notif/1"))
                .with_max_size(1024)
                .with_handshake(vec![i as u8, 0xcc])
                .with_auto_accept_inbound(true)
                .with_sync_channel_size(8)
                .with_async_channel_size(8)
                .with_dialing_enabled(false)
                .build();
            let (rc, rh) = RrBuilder::new(ProtocolName::from("/vsim/rr/1")).with_max_size(1024).with_timeout(Duration::from_secs(3600)).build();
            let mut b = base_config(&handle, seed, i, &knobs).with_notification_protocol(nc).with_request_response_protocol(rc);
            if case["ping"].as_bool().unwrap_or(false) {
                let (pc, pev) = ping::Config::default();
                b = b.with_libp2p_ping(pc);
                handle.spawn(i, "ping-events", async move {
                    let mut pev = pev;
                    while pev.next().await.is_some() {}
                });
            }
            if case["identify"].as_bool().unwrap_or(false) {
                let (ic, iev) = identify::Config::new("/vsim/1".to_string(), Some("vsim".to_string()));
                b = b.with_libp2p_identify(ic);
                handle.spawn(i, "identify-events", async move {
                    let mut iev = iev;
                    while iev.next().await.is_some() {}
                });
            }
            let mut l = match Litep2p::new(b.build()) {
                Ok(l) => l,
                Err(e) => {
                    handle.violation("harness:litep2p-new", format!("{e:?}"));
                    return Box::new(|| {});
                }
            };
            l.add_known_address(peer_id(seed, 3 - i), std::iter::once(full_addr(seed, 3 - i)));
            node_tx.push(Some(spawn_app_loop(&handle, log.clone(), seed, 2, i, l)));
            notif_tx.push(Some(spawn_notif_user(&handle, blg.clone(), seed, i, nh)));
            rr_tx.push(Some(spawn_rr_user(&handle, blg.clone(), seed, i, rh)));
        }
        node::CURRENT_NODE.with(|c| c.set(0));
        {
            let ops = ops.clone();
            let double = case["double"].as_bool().unwrap_or(false);
            let dialer = (case["dialer"].as_u64().unwrap_or(1) as usize).clamp(1, 2);
            handle.spawn(0, "ops-driver", async move {
                let start = tokio::time::Instant::now();
                tokio::time::sleep_until(start + Duration::from_millis(50)).await;
                if double {
                    for i in 1..=2 {
                        if let Some(tx) = &node_tx[i] {
                            let _ = tx.send(NodeCmd::DialAddr { addr: full_addr(seed, 3 - i), peer: Some(3 - i) });
                        }
                    }
                } else if let Some(tx) = &node_tx[dialer] {
                    let _ = tx.send(NodeCmd::Dial { peer: 3 - dialer, fin: false });
                }
                for o in ops {
                    tokio::time::sleep_until(start + Duration::from_millis(o["at_ms"].as_u64().unwrap_or(0))).await;
                    let i = (o["node"].as_u64().unwrap_or(1) as usize).clamp(1, 2);
                    match o["op"].as_str().unwrap_or("") {
                        "nopen" => {
                            let _ = notif_tx[i].as_ref().unwrap().send(NCmd::Open);
                        }
                        "nclose" => {
                            let _ = notif_tx[i].as_ref().unwrap().send(NCmd::Close);
                        }
                        "req" => {
                            let _ = rr_tx[i].as_ref().unwrap().send(o["hold_ms"].as_u64().unwrap_or(0));
                        }
                        _ => {}
                    }
                }
                futures::future::pending::<()>().await;
            });
        }
        let h = handle.clone();
        Box::new(move || {
            let app = log.lock().unwrap().clone();
            let b = blg.lock().unwrap().clone();
            let end_ns = vnow().as_nanos() as u64;
            if let Some((c, d)) = check(&app, &b, t_ms, end_ns, &h) {
                h.violation(c, d);
            }
        })
    })
}

fn check(app: &[crate::props::conn::Rec], b: &[(u64, usize, B)], t_ms: u64, end_ns: u64, h: &Handle) -> Option<(String, String)> {
    let t_ns = t_ms * 1_000_000;
    let ts = |t: u64| format!("{:.3}s", t as f64 / 1e9);
    let te = app.iter().find(|r| r.node == 1 && matches!(r.k, K::AppEstablished { .. })).map(|r| r.t)?;
    let tc = app.iter().find(|r| r.node == 1 && matches!(r.k, K::AppClosed { .. })).map(|r| r.t);
    let w_end = tc.unwrap_or(end_ns);
    // The remote notification protocol force-closes a connection whose negotiation it considers
    // stuck (five seconds after its outbound substream failed, e.g. because the secondary of two
    // connections idled out under it): a close that node 2 reports first is not node 1's idle
    // mechanism and is not judged.
    if let (Some(t1), Some(t2)) = (tc, app.iter().find(|r| r.node == 2 && matches!(r.k, K::AppClosed { .. })).map(|r| r.t)) {
        if t2 <= t1 {
            h.probe("builtin-closed-by-remote");
            return None;
        }
    }
    // lower bound of the expected instant: every establishment, every command that demonstrably
    // led to activity on node 1, every release command
    let mut lower = app.iter().filter(|r| r.node == 1 && r.t <= w_end && matches!(r.k, K::AppEstablished { .. })).map(|r| r.t + t_ns).max().unwrap_or(te + t_ns);
    // upper bound: outcomes seen by node 1
    let mut upper_act = lower - t_ns;
    let mut upper_rel = 0u64;
    let mut unresolved = false;
    // certain holds of node 1: (from, to)
    let mut holds: Vec<(u64, u64, String)> = Vec::new();

    // ---- notification streams: pair the commands with what node 1 saw ----
    let ev = |node: usize, f: &dyn Fn(&B) -> bool| -> Vec<u64> { b.iter().filter(|(t, n, x)| *n == node && *t <= w_end && f(x)).map(|(t, _, _)| *t).collect() };
    let opens_seen_1 = ev(1, &|x| matches!(x, B::NOpened));
    let closes_seen_1 = ev(1, &|x| matches!(x, B::NClosed));
    let open_cmds: Vec<u64> = b.iter().filter(|(t, _, x)| *t <= w_end && matches!(x, B::NCmdOpen { ok: true })).map(|(t, _, _)| *t).collect();
    let close_cmds: Vec<u64> = b.iter().filter(|(t, _, x)| *t <= w_end && matches!(x, B::NCmdClose)).map(|(t, _, _)| *t).collect();
    for (k, to) in opens_seen_1.iter().enumerate() {
        // the open command behind this stream: the latest one not after node 1 saw it open
        if let Some(cmd) = open_cmds.iter().filter(|c| **c <= *to).max() {
            lower = lower.max(*cmd + t_ns);
        }
        upper_act = upper_act.max(*to);
        let seen_closed = closes_seen_1.get(k).cloned();
        let asked = close_cmds.iter().filter(|c| **c >= *to).min().cloned();
        let until = match (asked, seen_closed) {
            (Some(a), Some(c)) => a.min(c),
            (Some(a), None) => a,
            (None, Some(c)) => c,
            (None, None) => w_end,
        };
        holds.push((*to, until, "an open notification stream".into()));
        if let Some(a) = asked {
            if seen_closed.is_some() {
                lower = lower.max(a);
            }
        }
        match seen_closed {
            Some(c) => upper_rel = upper_rel.max(c),
            None => unresolved = true,
        }
    }
    for t in ev(1, &|x| matches!(x, B::NOpenFailure)) {
        upper_act = upper_act.max(t);
    }
    if open_cmds.len() > opens_seen_1.len() + ev(1, &|x| matches!(x, B::NOpenFailure)).len() + ev(2, &|x| matches!(x, B::NOpenFailure)).len() {
        // an open command whose outcome node 1 has not seen (yet)
        unresolved = true;
    }

    // ---- requests ----
    for (t, n, x) in b.iter().filter(|(t, _, _)| *t <= w_end) {
        let B::RSend { id, ok: true } = x else { continue };
        let responder = 3 - *n;
        let recv = b.iter().find(|(_, m, y)| *m == responder && matches!(y, B::RRecv { id: i } if i == id)).map(|(t, _, _)| *t);
        let answered = b.iter().find(|(_, m, y)| *m == responder && matches!(y, B::RAnswered { id: i } if i == id)).map(|(t, _, _)| *t);
        let done = b.iter().find(|(_, m, y)| m == n && matches!(y, B::RResp { id: i } | B::RFail { id: i } if i == id)).map(|(t, _, _)| *t);
        let responded = b.iter().any(|(_, m, y)| m == n && matches!(y, B::RResp { id: i } if i == id));
        if let (Some(r), true) = (recv, responded) {
            if r <= w_end {
                lower = lower.max(*t + t_ns);
            }
        }
        if let Some(r) = recv {
            if r <= w_end {
                let until = answered.unwrap_or(w_end).min(w_end);
                holds.push((r, until, format!("the substream of request {id} (received, not answered yet)")));
                if let Some(a) = answered {
                    if a <= w_end && responded {
                        lower = lower.max(a);
                    }
                }
            }
        }
        // what node 1 saw of it
        if *n == 1 {
            match done {
                Some(d) => {
                    upper_act = upper_act.max(d.min(w_end));
                    upper_rel = upper_rel.max(d.min(w_end));
                }
                None => unresolved = true,
            }
        } else {
            match (recv, answered) {
                (Some(r), Some(a)) => {
                    upper_act = upper_act.max(r);
                    upper_rel = upper_rel.max(a);
                }
                (Some(_), None) => unresolved = true,
                (None, _) => {
                    if done.is_none() {
                        unresolved = true;
                    }
                }
            }
        }
    }
    h.probe("c09-builtin-run");
    let slack = 400_000_000u64;
    let upper = (upper_act + t_ns).max(upper_rel) + slack;
    match tc {
        Some(tc) => {
            for (from, to, what) in holds.iter() {
                if tc > *from + 1_000_000 && tc + 1_000_000 < *to {
                    return Some(("c09:closed-while-substream-held".into(), format!("node 1 (keep-alive {t_ms} ms): connection closed at {} while node 1 held {what} (from {} until at least {})", ts(tc), ts(*from), ts(*to))));
                }
            }
            if tc + 3_000_000 < lower {
                return Some(("c09:closed-early".into(), format!("node 1 (keep-alive {t_ms} ms, built-in protocols): connection closed at {}, not before {} was expected (last command that led to activity + timeout / last release command)", ts(tc), ts(lower))));
            }
            if !unresolved && tc > upper {
                return Some(("c09:closed-late".into(), format!("node 1 (keep-alive {t_ms} ms, built-in protocols): connection closed at {}, expected by {} (last outcome seen + timeout / last release seen, + 400 ms)", ts(tc), ts(upper))));
            }
            h.probe("builtin-closed-on-time");
            None
        }
        None => {
            if !unresolved && upper + 1_000_000_000 < end_ns {
                return Some(("c09:never-closed".into(), format!("node 1 (keep-alive {t_ms} ms, built-in protocols): nothing held since {} at the latest but still connected at the horizon {}", ts(upper), ts(end_ns))));
            }
            h.probe("builtin-still-held-at-horizon");
            None
        }
    }
}
