//! C10 — the peer address book stays bounded, attributable and dialable.
//!
//! Node 1 is a complete litep2p node under test; nodes 2..3 are real peers, further peers exist
//! only as addresses. A single driver task owns node 1 and executes a history of
//! `add_known_address` (generated address shapes, more than the per-peer bound of 64) and
//! `dial(peer)` operations, letting every dial run to completion against SimNet outcomes (refused,
//! black-holed, successful). After every step the stored addresses with their scores are read
//! through the guarded accessor (hook H4) and compared with the previous snapshot, the operation
//! and the order in which SimNet saw the connection attempts (max_parallel_dials = 1 makes the
//! order of the address list handed to the transport observable).
use crate::node::{self, base_config, full_addr, gen_node_knobs, node_ip, peer_id, with_p2p};
use crate::rng::Rng;
use crate::runner::{Budget, Describe, Prop, Tier};
use crate::sim::{run_sim, vnow, Handle, RunOutput, SchedKind};
use crate::simnet::{NetKnobs, SimNet};
use litep2p::{protocol::libp2p::ping, Litep2p, Litep2pEvent, PeerId};
use multiaddr::{Multiaddr, Protocol};
use serde_json::{json, Value};
use std::{
    collections::{BTreeMap, BTreeSet},
    net::SocketAddr,
    time::Duration,
};

pub struct C10;

const BOUND: usize = 64;

/// Build one offered address for peer index `j` from a shape spec.
fn build_addr(seed: u64, n_real: usize, j: usize, spec: &Value) -> Multiaddr {
    let p = peer_id(seed, j);
    let port = spec["port"].as_u64().unwrap_or(1000) as u16;
    let host = spec["host"].as_u64().unwrap_or(0);
    let ip4 = |host: u64| -> String {
        match host % 4 {
            0 => format!("10.0.0.{}", j.min(250)),             // the peer's own host, dead port
            1 => format!("8.8.{}.{}", (port >> 8) & 0xff, port & 0xff), // public address, nobody there
            2 => format!("10.0.0.{}", n_real + 2),              // black hole
            _ => format!("192.168.{}.{}", j % 250, port % 250),
        }
    };
    let base: Multiaddr = match spec["shape"].as_str().unwrap_or("dead") {
        "real" => return if j <= n_real { full_addr(seed, j) } else { with_p2p(format!("/ip4/10.0.0.{}/tcp/{}", j.min(250), port).parse().unwrap(), p) },
        "dead" => format!("/ip4/{}/tcp/{port}", ip4(host)).parse().unwrap(),
        "ip6" => format!("/ip6/2001:db8::{:x}/tcp/{port}", port).parse().unwrap(),
        "no_p2p" => return format!("/ip4/{}/tcp/{port}", ip4(host)).parse().unwrap(),
        "foreign_p2p" => return with_p2p(format!("/ip4/{}/tcp/{port}", ip4(host)).parse().unwrap(), peer_id(seed, j + 1)),
        "double_p2p" => return with_p2p(with_p2p(format!("/ip4/{}/tcp/{port}", ip4(host)).parse().unwrap(), p), p),
        "unspecified" => format!("/ip4/0.0.0.0/tcp/{port}").parse().unwrap(),
        "unspecified6" => format!("/ip6/::/tcp/{port}").parse().unwrap(),
        "own_listen" => format!("/ip4/10.0.0.1/tcp/{}", node::port(1)).parse().unwrap(),
        // (WebSocket addresses get their own port range: an attempt is attributed to an address
        // by its socket)
        "ws" => format!("/ip4/{}/tcp/{}/ws", ip4(host), port + 20_000).parse().unwrap(),
        "real_ws" => return if j <= n_real { node::ws_full_addr(seed, j) } else { with_p2p(format!("/ip4/10.0.0.{}/tcp/{}/ws", j.min(250), port + 20_000).parse().unwrap(), p) },
        "own_listen_ws" => format!("/ip4/10.0.0.1/tcp/{}/ws", node::ws_port(1)).parse().unwrap(),
        "udp_quic" => format!("/ip4/{}/udp/{port}/quic-v1", ip4(host)).parse().unwrap(),
        "trailing" => return with_p2p(format!("/ip4/{}/tcp/{port}", ip4(host)).parse().unwrap(), p).with(Protocol::Tcp(9)),
        "tcp_only" => format!("/tcp/{port}").parse().unwrap(),
        _ => format!("/ip4/{}/tcp/{port}", ip4(host)).parse().unwrap(),
    };
    with_p2p(base, p)
}

const SHAPES: &[&str] = &["dead", "dead", "dead", "dead", "dead", "dead", "dead", "dead", "dead", "dead", "dead", "dead", "dead", "dead", "ip6", "ip6", "real", "real", "no_p2p", "foreign_p2p", "double_p2p", "unspecified", "unspecified6", "own_listen", "ws", "udp_quic", "trailing", "tcp_only"];

fn socket_of(a: &Multiaddr) -> Option<SocketAddr> {
    let mut it = a.iter();
    let ip: std::net::IpAddr = match it.next()? {
        Protocol::Ip4(i) => i.into(),
        Protocol::Ip6(i) => i.into(),
        _ => return None,
    };
    match it.next()? {
        Protocol::Tcp(p) => Some(SocketAddr::new(ip, p)),
        _ => None,
    }
}

/// (a) shape rule for a stored address of peer `p`; `ws`: the node also runs the WebSocket transport.
fn well_formed(a: &Multiaddr, p: &PeerId, own: &[Multiaddr], ws: bool) -> Result<(), String> {
    let comps: Vec<Protocol> = a.iter().collect();
    let is_ws = comps.len() == 4 && matches!(comps[2], Protocol::Ws(_));
    if comps.len() != 3 && !(ws && is_ws) {
        return Err(format!("{a}: expected exactly <host>/tcp/p2p{}", if ws { " or <host>/tcp/ws/p2p" } else { "" }));
    }
    match &comps[0] {
        Protocol::Ip4(i) if !i.is_unspecified() => {}
        Protocol::Ip6(i) if !i.is_unspecified() => {}
        Protocol::Dns(_) | Protocol::Dns4(_) | Protocol::Dns6(_) => {}
        _ => return Err(format!("{a}: host component is not a dialable ip/dns")),
    }
    if !matches!(comps[1], Protocol::Tcp(_)) {
        return Err(format!("{a}: no enabled transport can dial it"));
    }
    match comps.last() {
        Some(Protocol::P2p(id)) => {
            if PeerId::try_from_multiaddr(a).as_ref() != Some(p) {
                let _ = id;
                return Err(format!("{a}: names another peer"));
            }
        }
        _ => return Err(format!("{a}: does not end in /p2p")),
    }
    let stripped: Multiaddr = a.iter().take(comps.len() - 1).collect();
    if own.contains(&stripped) {
        return Err(format!("{a}: is one of the node's own listen addresses"));
    }
    Ok(())
}

fn is_ws_addr(a: &str) -> bool {
    a.contains("/ws/")
}

impl Prop for C10 {
    fn id(&self) -> &'static str {
        "C10"
    }

    fn budget(&self, tier: Tier) -> Budget {
        match tier {
            Tier::Quick => Budget { runs: 4000, wall_s: 60.0 },
            Tier::Thorough => Budget { runs: 150_000, wall_s: 540.0 },
        }
    }

    fn describe(&self) -> Describe {
        Describe {
            level: "exploration",
            rule: "each case = one seeded run: a history of add_known_address operations (address shapes: dead and live ip4/ip6 hosts, public/private ranges, missing / foreign / duplicate peer ids, unspecified IPs, the node's own listen address, ws / quic / trailing components; up to 200 distinct addresses per peer against the bound of 64) interleaved with dial(peer) operations whose attempts are resolved by SimNet (refused, black-holed, connected), with re-additions of already scored addresses, connection limit knob, carrier and scheduler knobs; non-trivial = scheduler had >=1 choice point; distinct = distinct trace hash".into(),
            real: vec!["Litep2p::add_known_address / dial", "TransportManagerHandle (address filtering)", "AddressStore (scoring, eviction)", "TransportManager (dial address selection, score updates)", "WebSocketTransport/WebSocketConnection + tokio-tungstenite (runs with the second transport)", "TcpTransport::open (sequential dialing)", "Noise", "yamux", "ping"],
            stub: vec!["socket layer (SimNet)", "clock", "task scheduler (seeded)", "DNS (dns addresses are stored but never dialed)"],
            assumptions: vec![
                "the address list handed to Transport::open is observed as the order of SimNet connection attempts with max_parallel_dials = 1",
                "eviction among equal minimum scores is legitimately arbitrary; the oracle compares scores, not identities, there",
                "stored addresses and scores are read through the guarded accessor Litep2p::verif_peer_addresses (hook H4)",
            ],
        }
    }

    fn gen(&self, seed: u64, tier: Tier) -> Value {
        let mut rng = Rng::fork(seed, "c10-gen");
        let n_real = 3usize;
        let peers = [2usize, 3, 6, 7];
        let mut ops = Vec::new();
        let nops = match tier {
            Tier::Quick => rng.range(2, 10),
            Tier::Thorough => rng.range(2, 25),
        };
        let mut port_ctr = 1000u64;
        let mut offered: BTreeMap<usize, Vec<Value>> = BTreeMap::new();
        for _ in 0..nops {
            let j = *rng.pick(&peers);
            if rng.chance(3, 5) {
                let count = match rng.below(6) {
                    0 => rng.range(70, 200),
                    1 => rng.range(1, 3),
                    2 => rng.range(40, 70),
                    _ => rng.range(3, 40),
                };
                let mut specs = Vec::new();
                for _ in 0..count {
                    // sometimes re-offer an address offered before (rediscovery)
                    if rng.chance(1, 5) {
                        if let Some(prev) = offered.get(&j).and_then(|v| if v.is_empty() { None } else { Some(v[rng.below(v.len() as u64) as usize].clone()) }) {
                            specs.push(prev);
                            continue;
                        }
                    }
                    port_ctr += 1;
                    let host = match rng.below(10) {
                        0 => 2, // black hole, rarely: each costs a connection time-out
                        1 | 2 => 1,
                        3 => 3,
                        _ => 0,
                    };
                    let s = json!({"shape": *rng.pick(SHAPES), "port": port_ctr, "host": host});
                    offered.entry(j).or_default().push(s.clone());
                    specs.push(s);
                }
                ops.push(json!({"op": "add", "peer": j, "addrs": specs}));
            } else {
                ops.push(json!({"op": "dial", "peer": j}));
            }
        }
        let mut knobs = gen_node_knobs(&mut rng);
        knobs["max_parallel_dials"] = json!(1);
        knobs["conn_open_timeout_ms"] = json!(1000);
        knobs["keep_alive_ms"] = json!(1000);
        if rng.chance(1, 3) {
            // free capacity below, around and above the number of stored addresses: the dial takes
            // a prefix of the score order that spans several score classes
            knobs["max_out"] = json!(*rng.pick(&[1u64, 2, 3, 4, 5, 8, 16, 30, 50]));
        }
        {
            // a third of the runs (independent stream): the node and the real peers also run the
            // WebSocket transport; /ws addresses become storable and dialable, a dial by peer id
            // hands each transport its share of the score order
            let mut r = Rng::fork(seed, "c10-ws");
            if r.chance(1, 3) {
                knobs["transport_ws"] = json!(true);
                knobs["ws_nodes"] = json!([1, 2, 3]);
                for o in ops.iter_mut() {
                    if let Some(specs) = o["addrs"].as_array_mut() {
                        for sp in specs.iter_mut() {
                            match r.below(8) {
                                0 | 1 if sp["shape"] == "dead" => sp["shape"] = json!("ws"),
                                2 if sp["shape"] == "real" => sp["shape"] = json!("real_ws"),
                                3 if sp["shape"] == "own_listen" => sp["shape"] = json!("own_listen_ws"),
                                _ => {}
                            }
                        }
                    }
                }
            }
        }
        json!({
            "property": "C10",
            "seed": seed,
            "sched": SchedKind::gen(&mut rng, 4000),
            "net": {"lat_min_us": 50, "lat_jitter_us": *rng.pick(&[0u64, 500]), "max_chunk": *rng.pick(&[64u64, 65536]), "short_write": rng.chance(1, 3), "spurious_pending_pct": 0, "window": 1 << 20},
            "node_knobs": knobs,
            "n_real": n_real,
            "ops": ops,
            "faults": [],
        })
    }

    fn shrink_keys(&self) -> Vec<&'static str> {
        vec!["ops"]
    }

    fn run(&self, case: &Value, verbose: bool) -> RunOutput {
        let case = case.clone();
        let seed = case["seed"].as_u64().unwrap_or(0);
        let sched = SchedKind::from_json(&case["sched"]);
        let ops: Vec<Value> = case["ops"].as_array().cloned().unwrap_or_default();
        let horizon = Duration::from_secs(400 * (ops.len() as u64 + 2));
        run_sim(seed, sched, horizon, 30_000_000, verbose, move |handle: Handle| {
            let net = SimNet::new(handle.clone(), seed, NetKnobs::from_json(&case["net"]));
            net.install();
            let n_real = case["n_real"].as_u64().unwrap_or(3) as usize;
            let knobs = case["node_knobs"].clone();
            let max_out = knobs["max_out"].as_u64().map(|x| x as usize);
            let ws_on = knobs["transport_ws"].as_bool().unwrap_or(false);
            // peers 2..n_real: real nodes that just accept connections
            for i in 2..=n_real {
                node::CURRENT_NODE.with(|c| c.set(i));
                let (pc, pev) = ping::Config::default();
                let mut k2 = knobs.clone();
                k2["keep_alive_ms"] = json!(1000);
                k2.as_object_mut().unwrap().remove("max_out");
                let cfg = base_config(&handle, seed, i, &k2).with_libp2p_ping(pc).build();
                let mut l = Litep2p::new(cfg).expect("node");
                handle.spawn(i, "peer-event-loop", async move { while l.next_event().await.is_some() {} });
                handle.spawn(i, "peer-ping", async move {
                    let mut pev = pev;
                    while futures::StreamExt::next(&mut pev).await.is_some() {}
                });
            }
            node::CURRENT_NODE.with(|c| c.set(1));
            let (pc, pev) = ping::Config::default();
            let cfg = base_config(&handle, seed, 1, &knobs).with_libp2p_ping(pc).build();
            let mut l = match Litep2p::new(cfg) {
                Ok(l) => l,
                Err(e) => {
                    handle.violation("harness:litep2p-new", format!("{e:?}"));
                    return Box::new(|| {});
                }
            };
            handle.spawn(1, "ping-events", async move {
                let mut pev = pev;
                while futures::StreamExt::next(&mut pev).await.is_some() {}
            });
            node::CURRENT_NODE.with(|c| c.set(0));
            net.host_down_opt(node_ip(n_real + 2), true, false);
            let own: Vec<Multiaddr> = if ws_on { vec![node::listen_addr(1), node::ws_listen_addr(1)] } else { vec![node::listen_addr(1)] };
            let h = handle.clone();
            let net2 = net.clone();
            handle.spawn(1, "driver", async move {
                let peers = [2usize, 3, 6, 7];
                let snapshot = |l: &Litep2p, j: usize| -> BTreeMap<String, i32> { l.verif_peer_addresses(&peer_id(seed, j)).into_iter().map(|(a, s)| (a.to_string(), s)).collect() };
                for (step, op) in ops.iter().enumerate() {
                    let j = op["peer"].as_u64().unwrap_or(2) as usize;
                    let p = peer_id(seed, j);
                    let before: BTreeMap<usize, BTreeMap<String, i32>> = peers.iter().map(|q| (*q, snapshot(&l, *q))).collect();
                    let s0 = before[&j].clone();
                    match op["op"].as_str().unwrap_or("") {
                        "add" => {
                            let addrs: Vec<Multiaddr> = op["addrs"].as_array().map(|a| a.iter().map(|s| build_addr(seed, n_real, j, s)).collect()).unwrap_or_default();
                            let offered: BTreeSet<String> = addrs.iter().map(|a| if matches!(a.iter().last(), Some(Protocol::P2p(_))) { a.to_string() } else { with_p2p(a.clone(), p).to_string() }).collect();
                            let n = l.add_known_address(p, addrs.clone().into_iter());
                            h.event(format!("step {step}: add_known_address(n{j}, {} addresses) -> {n}", addrs.len()));
                            let s1 = snapshot(&l, j);
                            if s1.len() > BOUND {
                                h.violation("c10:bound-exceeded", format!("step {step}: {} addresses stored for n{j}, bound is {BOUND}", s1.len()));
                                return;
                            }
                            let mut max_new = i32::MIN;
                            for (a, s) in s1.iter() {
                                if !s0.contains_key(a) {
                                    if !offered.contains(a) {
                                        h.violation("c10:unoffered-address-stored", format!("step {step}: {a} appeared for n{j} but was not offered"));
                                        return;
                                    }
                                    if let Err(e) = well_formed(&a.parse().unwrap(), &p, &own, ws_on) {
                                        h.violation("c10:illegal-address-stored", format!("step {step}: stored for n{j}: {e}"));
                                        return;
                                    }
                                    if *s != 0 && *s != 1 {
                                        h.violation("c10:new-address-bad-score", format!("step {step}: freshly added {a} has score {s}"));
                                        return;
                                    }
                                    max_new = max_new.max(*s);
                                } else if s0[a] != *s {
                                    // a stored address with a minimal score may legitimately be
                                    // displaced by a newcomer of the same batch and then be
                                    // re-discovered later in that batch as a fresh address
                                    let full = s0.len() + offered.iter().filter(|o| !s0.contains_key(*o)).count() > BOUND;
                                    if full && offered.contains(a) && s0[a] <= 1 && (*s == 0 || *s == 1) {
                                        h.probe("evicted-and-rediscovered-in-one-batch");
                                        continue;
                                    }
                                    h.violation("c10:rediscovery-changed-score", format!("step {step}: adding addresses changed the score of the already stored {a} from {} to {s}", s0[a]));
                                    return;
                                }
                            }
                            // displaced records must have been minima
                            let survivors_min = s1.iter().filter(|(a, _)| s0.contains_key(*a)).map(|(_, s)| *s).min();
                            for (a, s) in s0.iter() {
                                if !s1.contains_key(a) {
                                    h.probe("eviction-observed");
                                    if let Some(m) = survivors_min {
                                        if *s > m {
                                            h.violation("c10:evicted-non-minimum", format!("step {step}: {a} (score {s}) was displaced while an address with the lower score {m} was kept"));
                                            return;
                                        }
                                    }
                                    if *s > 1 {
                                        h.violation("c10:evicted-higher-than-newcomer", format!("step {step}: {a} with score {s} was displaced by a freshly discovered address (score <= 1)"));
                                        return;
                                    }
                                }
                            }
                            // nothing may change for other peers
                            for q in peers.iter().filter(|q| **q != j) {
                                if snapshot(&l, *q) != before[q] {
                                    h.violation("c10:other-peer-touched", format!("step {step}: adding addresses for n{j} changed the address book of n{q}"));
                                    return;
                                }
                            }
                        }
                        "dial" => {
                            let log_from = net2.st.lock().unwrap().connect_log.len();
                            let r = l.dial(&p).await;
                            h.event(format!("step {step}: dial(n{j}) -> {r:?} ({} addresses stored)", s0.len()));
                            match &r {
                                Err(e) => {
                                    let e = format!("{e:?}");
                                    if e.contains("NoAddressAvailable") != s0.is_empty() && !e.contains("ConnectionLimit") && !e.contains("AlreadyConnected") {
                                        h.violation("c10:no-address-mismatch", format!("step {step}: dial(n{j}) returned {e} with {} stored addresses", s0.len()));
                                        return;
                                    }
                                    continue;
                                }
                                Ok(()) => {
                                    if s0.is_empty() {
                                        h.violation("c10:no-address-mismatch", format!("step {step}: dial(n{j}) accepted although no address is stored"));
                                        return;
                                    }
                                }
                            }
                            // let the dial conclude and the connection (if any) idle out
                            let mut established: Option<String> = None;
                            let mut failed: BTreeSet<String> = BTreeSet::new();
                            let start = tokio::time::Instant::now();
                            let mut concluded_at: Option<tokio::time::Instant> = None;
                            loop {
                                let wait = match concluded_at {
                                    Some(c) => (c + Duration::from_secs(8)).saturating_duration_since(tokio::time::Instant::now()),
                                    None => (start + Duration::from_secs(300)).saturating_duration_since(tokio::time::Instant::now()),
                                };
                                if wait.is_zero() {
                                    break;
                                }
                                match tokio::time::timeout(wait, l.next_event()).await {
                                    Err(_) => break,
                                    Ok(None) => break,
                                    Ok(Some(Litep2pEvent::ConnectionEstablished { endpoint, .. })) => {
                                        // (a WebSocket endpoint address already ends in the peer id)
                                        let ea = endpoint.address().clone();
                                        established = Some(if matches!(ea.iter().last(), Some(Protocol::P2p(_))) { ea.to_string() } else { with_p2p(ea, p).to_string() });
                                        concluded_at = Some(tokio::time::Instant::now());
                                    }
                                    Ok(Some(Litep2pEvent::DialFailure { address, .. })) => {
                                        failed.insert(address.to_string());
                                        concluded_at = Some(tokio::time::Instant::now());
                                    }
                                    Ok(Some(Litep2pEvent::ListDialFailures { errors })) => {
                                        for (a, _) in errors {
                                            failed.insert(a.to_string());
                                        }
                                        concluded_at = Some(tokio::time::Instant::now());
                                    }
                                    Ok(Some(_)) => {}
                                }
                            }
                            if concluded_at.is_none() {
                                h.violation("c10:dial-never-concluded", format!("step {step}: dial(n{j}) produced no outcome within 300 s"));
                                return;
                            }
                            let attempts: Vec<SocketAddr> = net2.st.lock().unwrap().connect_log[log_from..].iter().filter(|c| c.1 == node_ip(1)).map(|c| c.2).collect();
                            // map attempts to stored addresses
                            let by_socket: BTreeMap<SocketAddr, (String, i32)> = s0.iter().filter_map(|(a, s)| socket_of(&a.parse().unwrap()).map(|so| (so, (a.clone(), *s)))).collect();
                            // every transport is handed its share of the score order and works
                            // through it on its own: order and duplicates are judged per transport
                            let mut seen = BTreeSet::new();
                            let mut last_score: BTreeMap<bool, i32> = BTreeMap::new();
                            let mut attempted: BTreeSet<String> = BTreeSet::new();
                            for so in attempts.iter() {
                                let Some((a, s)) = by_socket.get(so) else {
                                    h.violation("c10:dialed-unknown-address", format!("step {step}: dial(n{j}) connected to {so}, which is not a stored address of that peer"));
                                    return;
                                };
                                if !seen.insert(*so) {
                                    h.violation("c10:address-dialed-twice", format!("step {step}: dial(n{j}) tried {a} twice"));
                                    return;
                                }
                                let t = is_ws_addr(a);
                                let last = *last_score.get(&t).unwrap_or(&i32::MAX);
                                if *s > last {
                                    h.violation("c10:dial-order-not-by-score", format!("step {step}: dial(n{j}) tried {a} (score {s}) after an address of the same transport with the lower score {last}"));
                                    return;
                                }
                                last_score.insert(t, *s);
                                attempted.insert(a.clone());
                            }
                            if attempts.iter().any(|so| by_socket.get(so).is_some_and(|(a, _)| is_ws_addr(a))) {
                                h.probe("c10-websocket-address-dialed");
                            }
                            if let Some(m) = max_out {
                                if attempts.len() > m {
                                    h.violation("c10:more-addresses-than-capacity", format!("step {step}: dial(n{j}) tried {} addresses, free outbound capacity is at most {m}", attempts.len()));
                                    return;
                                }
                            }
                            // addresses that were not tried must not outrank the tried ones: within
                            // a transport always (what it tried is a prefix of its share: it stops at
                            // its first success and at the overall dial deadline of twice the
                            // connection-open time-out); across transports only when the dial failed
                            // as a whole before that deadline (then every address handed out was tried)
                            let deadline = Duration::from_millis(2 * knobs["conn_open_timeout_ms"].as_u64().unwrap_or(1000)).saturating_sub(Duration::from_millis(50));
                            let uncut = established.is_none() && concluded_at.is_some_and(|c| c.saturating_duration_since(start) < deadline);
                            for t in [false, true] {
                                let min_attempted = attempted.iter().filter(|a| is_ws_addr(a) == t).map(|a| s0[a]).min();
                                if let Some(m) = min_attempted {
                                    for (a, s) in s0.iter() {
                                        if !attempted.contains(a) && *s > m && (is_ws_addr(a) == t || uncut) {
                                            h.violation("c10:better-address-skipped", format!("step {step}: dial(n{j}) skipped {a} (score {s}) but tried an address with score {m}"));
                                            return;
                                        }
                                    }
                                }
                            }
                            h.probe_n("dial-attempts", attempts.len() as u64);
                            // score updates: exactly the addresses used
                            let s1 = snapshot(&l, j);
                            for (a, s) in s0.iter() {
                                let Some(now) = s1.get(a) else {
                                    h.violation("c10:address-vanished-on-dial", format!("step {step}: {a} disappeared from the address book of n{j} during a dial"));
                                    return;
                                };
                                if Some(a) == established.as_ref() {
                                    if *now != 100 {
                                        h.violation("c10:success-not-scored", format!("step {step}: connected through {a} but its score is {now}, expected 100"));
                                        return;
                                    }
                                    h.probe("success-scored");
                                } else if attempted.contains(a) {
                                    if *now != -100 && failed.contains(a) {
                                        h.violation("c10:failure-not-scored", format!("step {step}: {a} failed to connect but its score is {now}, expected -100"));
                                        return;
                                    }
                                    if *now != -100 && *now != *s {
                                        h.violation("c10:failure-not-scored", format!("step {step}: {a} was tried without success; its score went from {s} to {now}"));
                                        return;
                                    }
                                } else if *now != *s {
                                    h.violation("c10:unused-address-rescored", format!("step {step}: {a} was not used by the dial of n{j} but its score changed from {s} to {now}"));
                                    return;
                                }
                            }
                            for q in peers.iter().filter(|q| **q != j) {
                                if snapshot(&l, *q) != before[q] {
                                    h.violation("c10:other-peer-touched", format!("step {step}: dialing n{j} changed the address book of n{q}"));
                                    return;
                                }
                            }
                        }
                        _ => {}
                    }
                }
                h.event(format!("history done at {:?}", vnow()));
                h.stop();
                drop(l);
            });
            Box::new(|| {})
        })
    }
}
