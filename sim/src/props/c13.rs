//! C13 — every request gets exactly one terminal outcome with the matching payload.
use crate::node::{self, base_config, full_addr, gen_node_knobs, peer_id, short};
use crate::nodesim::{self, spawn_node_loop, ConnEv, ConnHistory, NodeCmd};
use crate::rng::Rng;
use crate::runner::{Budget, Describe, Prop, Tier};
use crate::sim::{run_sim, vnow, Handle, RunOutput, SchedKind};
use crate::simnet::{NetKnobs, SimNet};
use futures::StreamExt;
use litep2p::{
    codec::ProtocolCodec,
    protocol::request_response::{ConfigBuilder as RrBuilder, DialOptions, RequestResponseEvent, RequestResponseHandle},
    protocol::{TransportEvent, TransportService, UserProtocol},
    substream::Substream,
    types::RequestId,
    Litep2p, PeerId, ProtocolName,
};
use serde_json::{json, Value};
use std::{
    collections::BTreeMap,
    sync::{Arc, Mutex},
    time::Duration,
};
use tokio::sync::mpsc::{unbounded_channel, UnboundedReceiver, UnboundedSender};

pub struct C13;

const HDR: usize = 15;

fn make_request(beh: u8, delay_ms: u16, resp_size: u32, uid: u64, size: usize) -> Vec<u8> {
    let mut v = Vec::with_capacity(size.max(HDR));
    v.push(beh);
    v.extend_from_slice(&delay_ms.to_le_bytes());
    v.extend_from_slice(&resp_size.to_le_bytes());
    v.extend_from_slice(&uid.to_le_bytes());
    while v.len() < size {
        v.push((uid as u8).wrapping_add(v.len() as u8));
    }
    v
}

fn parse_request(r: &[u8]) -> Option<(u8, u16, u32, u64)> {
    if r.len() < HDR {
        return None;
    }
    Some((r[0], u16::from_le_bytes([r[1], r[2]]), u32::from_le_bytes([r[3], r[4], r[5], r[6]]), u64::from_le_bytes(r[7..15].try_into().unwrap())))
}

fn make_response(uid: u64, resp_size: u32) -> Vec<u8> {
    let n = (resp_size as usize).max(8);
    let mut v = Vec::with_capacity(n);
    v.extend_from_slice(&uid.to_le_bytes());
    while v.len() < n {
        v.push((uid.wrapping_mul(31) as u8).wrapping_add(v.len() as u8));
    }
    v
}

#[derive(Debug)]
enum RrCmd {
    Request { to: PeerId, to_idx: usize, payload: Vec<u8>, uid: u64, dial: bool, try_send: bool },
    Cancel { nth: usize },
}

#[derive(Debug, Clone)]
struct Req {
    node: usize,
    id: RequestId,
    uid: u64,
    to_idx: usize,
    resp_size: u32,
    issued_ns: u64,
    cancelled: bool,
    terminal: Option<String>,
    mode: &'static str,
}

#[derive(Default)]
struct World {
    reqs: Vec<Req>,
    /// (responder node, uid) -> times seen
    seen: BTreeMap<(usize, u64), u32>,
    dead: BTreeMap<usize, bool>,
    /// index of the rogue speaker, if the run has one: its responses are whatever it sends
    rogue_idx: Option<usize>,
    max_size: usize,
}

fn gen_ops(rng: &mut Rng, n: usize, max_size: u64, tier: Tier) -> (Vec<Value>, u64) {
    let mut ops = Vec::new();
    let nreq = match tier {
        Tier::Quick => rng.range(1, 10),
        Tier::Thorough => rng.range(1, 30),
    };
    let span = *rng.pick(&[200u64, 2_000, 8_000, 20_000]);
    // some runs connect first, some rely on dial-on-demand
    if rng.chance(1, 2) {
        for i in 1..=n {
            for j in 1..=n {
                if i < j && rng.chance(2, 3) {
                    ops.push(json!({"at_ms": rng.below(50), "op": "connect", "node": i, "to": j}));
                }
            }
        }
    }
    let mut t = 0u64;
    let burst = rng.chance(1, 2);
    for k in 0..nreq {
        if burst && rng.chance(2, 3) {
            t += rng.below(3);
        } else {
            t = rng.below(span);
        }
        let node = 1 + rng.below(n as u64);
        // targets: real nodes mostly; sometimes a ghost with a dead address (n+1), a black-holed
        // address (n+2) or a peer without any address (n+3)
        let to = match rng.below(12) {
            0 => n as u64 + 1,
            1 => n as u64 + 2,
            2 => n as u64 + 3,
            _ => {
                let mut j = 1 + rng.below(n as u64);
                if j == node {
                    j = 1 + (node % n as u64);
                }
                j
            }
        };
        let size = match rng.below(10) {
            0 => max_size,
            1 => max_size + 1,
            2 => max_size.saturating_sub(1),
            3 => HDR as u64,
            _ => rng.range(HDR as u64, max_size.min(4000)),
        };
        let resp_size = match rng.below(10) {
            0 => max_size,
            1 => max_size + 1,
            2 => 8,
            _ => rng.range(8, max_size.min(4000)),
        };
        let beh = *rng.pick(&["answer", "answer", "answer", "answer", "late", "late", "reject", "stall"]);
        ops.push(json!({
            "at_ms": t, "op": "request", "node": node, "to": to, "size": size, "resp_size": resp_size,
            "dial": rng.chance(4, 5), "try": rng.chance(1, 4), "beh": beh,
            "delay_ms": *rng.pick(&[1u64, 50, 400, 1900, 2100, 6000]), "uid": k + 1,
        }));
        if rng.chance(1, 6) {
            ops.push(json!({"at_ms": t + *rng.pick(&[0u64, 1, 20, 300, 2500]), "op": "cancel", "node": node, "nth": rng.below(nreq)}));
        }
    }
    ops.sort_by_key(|o| o["at_ms"].as_u64().unwrap_or(0));
    let last = ops.iter().map(|o| o["at_ms"].as_u64().unwrap_or(0)).max().unwrap_or(0);
    (ops, last)
}

/// A live peer (ghost n+1) that registers the request-response protocol name as a raw user
/// protocol and, after a request arrives, misbehaves on the wire.
struct RogueRr {
    behaviour: String,
    max_size: usize,
    handle: Handle,
}

#[async_trait::async_trait]
impl UserProtocol for RogueRr {
    fn protocol(&self) -> ProtocolName {
        ProtocolName::from("/vsim/rr/1")
    }
    fn codec(&self) -> ProtocolCodec {
        ProtocolCodec::Unspecified
    }
    async fn run(self: Box<Self>, mut service: TransportService) -> litep2p::Result<()> {
        use tokio::io::{AsyncReadExt, AsyncWriteExt};
        let mut held: Vec<Substream> = Vec::new();
        let varint = |mut n: u64| {
            let mut v = Vec::new();
            loop {
                let b = (n & 0x7f) as u8;
                n >>= 7;
                if n == 0 {
                    v.push(b);
                    break;
                }
                v.push(b | 0x80);
            }
            v
        };
        while let Some(ev) = futures::StreamExt::next(&mut service).await {
            if let TransportEvent::SubstreamOpened { mut substream, .. } = ev {
                // read a little of the request, then act
                let mut buf = [0u8; 16];
                let _ = tokio::time::timeout(Duration::from_secs(2), substream.read(&mut buf)).await;
                self.handle.probe(&format!("rogue-rr:{}", self.behaviour));
                let bytes: Option<Vec<u8>> = match self.behaviour.as_str() {
                    "silent" => None,
                    "close" => {
                        drop(substream);
                        continue;
                    }
                    // announces more than the maximum and delivers it
                    "oversize" => Some([varint(self.max_size as u64 + 1), vec![7u8; self.max_size + 1]].concat()),
                    // announces 100 bytes, delivers 10, then closes
                    "truncated" => Some([varint(100), vec![1u8; 10]].concat()),
                    // two complete responses
                    "two_frames" => Some([varint(8), vec![2u8; 8], varint(8), vec![3u8; 8]].concat()),
                    // a length prefix that never ends
                    "bad_varint" => Some([vec![0x80u8; 11], vec![1, 2, 3]].concat()),
                    _ => Some(varint(0)),
                };
                if let Some(b) = bytes {
                    let _ = substream.write_all(&b).await;
                    let _ = substream.flush().await;
                    if self.behaviour == "truncated" {
                        let _ = substream.shutdown().await;
                        continue;
                    }
                }
                held.push(substream);
                if held.len() > 64 {
                    held.remove(0);
                }
            }
        }
        Ok(())
    }
}

impl Prop for C13 {
    fn id(&self) -> &'static str {
        "C13"
    }

    fn budget(&self, tier: Tier) -> Budget {
        match tier {
            Tier::Quick => Budget { runs: 20_000, wall_s: 60.0 },
            Tier::Thorough => Budget { runs: 200_000, wall_s: 540.0 },
        }
    }

    fn describe(&self) -> Describe {
        Describe {
            level: "exploration",
            rule: "each case = one seeded run of 2-4 complete litep2p nodes (request-response protocol) on SimNet: in a third of the runs ghost n+1 is a live peer that registers the protocol name as a raw user protocol and, after a request arrived, stays silent / closes / sends an oversize, truncated, doubled, zero-length or never-terminated-varint response (then a quarter of the requests go to it); materialised request/cancel/connect operations, fault plan (resets, half-closes, byte-offset cuts and single-bit corruption in flight, partitions, refused / black-holed / slow connects, node kill with reset or silent vanish, crash + restart with the same identity, process stalls), scheduler kind and knobs; a run is non-trivial if the scheduler had >=1 choice point (>=2 runnable tasks); distinct = distinct trace hash (scheduler decisions + every recorded event with its virtual timestamp)".into(),
            real: vec!["Litep2p", "TransportManager", "TcpTransport/TcpConnection", "WebSocketTransport/WebSocketConnection + tokio-tungstenite (runs with the second transport)", "multistream-select", "Noise", "yamux", "RequestResponseProtocol + handle", "TransportService"],
            stub: vec!["socket layer (SimNet)", "clock (paused tokio clock mirrored into clock_gettime)", "task scheduler (seeded)", "HashMap seeds (getrandom seam)"],
            assumptions: vec![
                "pre-emption granularity is the task poll",
                "SimNet models TCP as a reliable ordered stream; loss/reordering below TCP is not injected",
                "liveness is checked at the horizon: last operation/fault + all of the code's own time-outs + slack",
            ],
        }
    }

    fn gen(&self, seed: u64, tier: Tier) -> Value {
        let mut rng = Rng::fork(seed, "c13-gen");
        let n = rng.range(2, 4) as usize;
        let max_size = *rng.pick(&[64u64, 1024, 70_000]);
        let (ops, last) = gen_ops(&mut rng, n, max_size, tier);
        let fault_free = rng.chance(1, 3);
        let mut faults = Vec::new();
        if !fault_free {
            faults = nodesim::gen_faults(&mut rng, n, last + 3000, 4, true);
            faults.extend(nodesim::gen_connect_faults(&mut rng, 2));
        }
        faults.extend(nodesim::gen_freeze_faults(seed, n, last + 3000));
        nodesim::add_restarts(seed, &mut faults);
        faults.extend(nodesim::gen_flip_faults(seed));
        // requests issued right when a connection dies: the protocol is told about the closure
        // before the manager is, which opens a window between the two views
        let mut ops = ops;
        let mut uid = 1000u64;
        for f in faults.clone().iter() {
            let Some(at) = f["at_ms"].as_u64() else { continue };
            if !matches!(f["kind"].as_str(), Some("reset") | Some("half_close") | Some("kill") | Some("partition")) || !rng.chance(2, 3) {
                continue;
            }
            for _ in 0..rng.range(1, 3) {
                let node = 1 + rng.below(n as u64);
                let mut to = 1 + rng.below(n as u64);
                if to == node {
                    to = 1 + (node % n as u64);
                }
                uid += 1;
                ops.push(json!({
                    "at_ms": at + *rng.pick(&[0u64, 0, 1, 2, 5, 30]), "op": "request", "node": node, "to": to, "size": 40, "resp_size": 40,
                    "dial": true, "try": false, "beh": "answer", "delay_ms": 1, "uid": uid,
                }));
            }
        }
        let mut two_conn = false;
        {
            // two overlapping connections to a peer that stops answering, requests whose substreams
            // are being opened on them, then one (or both) of the connections is lost
            // (independent stream of the seed)
            let mut r = Rng::fork(seed, "c13-two-connections");
            if r.chance(1, 8) {
                two_conn = true;
                let (a, b) = (1u64, 2u64);
                let t1 = 1_200 + r.below(600);
                ops.push(json!({"at_ms": 20, "op": "connect", "node": a, "to": b}));
                ops.push(json!({"at_ms": 20 + r.below(3), "op": "connect", "node": b, "to": a}));
                faults.push(json!({"at_ms": t1, "kind": "freeze", "node": b, "heal_after_ms": *r.pick(&[3_000u64, 20_000])}));
                for k in 0..r.range(1, 3) {
                    uid += 1;
                    ops.push(json!({
                        "at_ms": t1 + 30 + k, "op": "request", "node": a, "to": b, "size": 40, "resp_size": 40,
                        "dial": r.chance(1, 2), "try": false, "beh": "answer", "delay_ms": 1, "uid": uid,
                    }));
                }
                let t2 = t1 + 60 + r.below(300);
                faults.push(json!({"at_ms": t2, "kind": "reset_pair", "a": a, "b": b, "k": r.below(2)}));
                if r.chance(1, 3) {
                    faults.push(json!({"at_ms": t2 + r.below(500), "kind": "reset_pair", "a": a, "b": b, "k": 0}));
                }
                faults.sort_by_key(|f| f["at_ms"].as_u64().unwrap_or(0));
            }
        }
        ops.sort_by_key(|o| o["at_ms"].as_u64().unwrap_or(0));
        // ghost n+1 is, in a third of the runs, a live peer that speaks the protocol badly; then a
        // quarter of the requests go to it
        let rogue = {
            let mut r = Rng::fork(seed, "c13-rogue");
            if r.chance(1, 3) {
                for o in ops.iter_mut() {
                    if o["op"] == "request" && r.chance(1, 4) {
                        o["to"] = json!(n as u64 + 1);
                    }
                }
                json!(*r.pick(&["silent", "close", "oversize", "truncated", "two_frames", "bad_varint", "zero_len"]))
            } else {
                Value::Null
            }
        };
        let mut knobs = gen_node_knobs(&mut rng);
        if two_conn && knobs["keep_alive_ms"].as_u64().unwrap_or(5000) < 5000 {
            // the two connections must still be there when the peer stalls
            knobs["keep_alive_ms"] = json!(5000);
        }
        // connection limits on some runs
        if rng.chance(1, 5) {
            knobs["max_out"] = json!(rng.range(1, 2));
        }
        if rng.chance(1, 8) {
            knobs["max_in"] = json!(rng.range(1, 2));
        }
        json!({
            "property": "C13",
            "seed": seed,
            "nodes": n,
            "sched": SchedKind::gen(&mut rng, 3000),
            "net": NetKnobs::gen(&mut rng),
            "node_knobs": knobs,
            "rr": {
                "timeout_ms": *rng.pick(&[500u64, 2000, 5000]),
                "max_size": max_size,
                "max_inbound": if rng.chance(1, 3) { json!(rng.range(1, 3)) } else { Value::Null },
            },
            "rogue": rogue,
            "ops": ops,
            "faults": faults,
        })
    }

    fn run(&self, case: &Value, verbose: bool) -> RunOutput {
        let case = case.clone();
        let seed = case["seed"].as_u64().unwrap_or(0);
        let sched = SchedKind::from_json(&case["sched"]);
        let ops: Vec<Value> = case["ops"].as_array().cloned().unwrap_or_default();
        let faults: Vec<Value> = case["faults"].as_array().cloned().unwrap_or_default();
        let last_ms = ops.iter().map(|o| o["at_ms"].as_u64().unwrap_or(0)).max().unwrap_or(0).max(nodesim::last_fault_ms(&faults));
        let knobs = case["node_knobs"].clone();
        let rr_timeout = case["rr"]["timeout_ms"].as_u64().unwrap_or(5000);
        let conn_open = knobs["conn_open_timeout_ms"].as_u64().unwrap_or(10_000);
        let sub_open = knobs["substream_open_timeout_ms"].as_u64().unwrap_or(5_000);
        // every time-out the code owns, several times over, plus slack
        let slack_ms = 4 * conn_open + 2 * sub_open + 3 * rr_timeout + 10_000 + 6_100;
        let horizon = Duration::from_millis(last_ms + slack_ms);
        run_sim(seed, sched, horizon, 3_000_000, verbose, move |handle: Handle| {
            let n = case["nodes"].as_u64().unwrap_or(2) as usize;
            let net = SimNet::new(handle.clone(), seed, NetKnobs::from_json(&case["net"]));
            net.install();
            nodesim::install_static_faults(&net, &faults);
            let world = Arc::new(Mutex::new(World::default()));
            {
                let mut w = world.lock().unwrap();
                w.max_size = case["rr"]["max_size"].as_u64().unwrap_or(1024) as usize;
                if case["rogue"].is_string() {
                    w.rogue_idx = Some(case["nodes"].as_u64().unwrap_or(2) as usize + 1);
                }
            }
            let hist: ConnHistory = Arc::new(Mutex::new(Vec::new()));
            let max_size = case["rr"]["max_size"].as_u64().unwrap_or(1024) as usize;
            let max_inbound = case["rr"]["max_inbound"].as_u64().map(|x| x as usize);
            let mut node_tx: Vec<Option<UnboundedSender<NodeCmd>>> = vec![None];
            let mut rr_tx: Vec<Option<UnboundedSender<RrCmd>>> = vec![None];
            for i in 1..=n {
                node::CURRENT_NODE.with(|c| c.set(i));
                let mut b = RrBuilder::new(ProtocolName::from("/vsim/rr/1")).with_max_size(max_size).with_timeout(Duration::from_millis(rr_timeout));
                if let Some(m) = max_inbound {
                    b = b.with_max_concurrent_inbound_requests(m);
                }
                let (rc, rh) = b.build();
                let cfg = base_config(&handle, seed, i, &knobs).with_request_response_protocol(rc).build();
                let mut l = match Litep2p::new(cfg) {
                    Ok(l) => l,
                    Err(e) => {
                        handle.violation("harness:litep2p-new", format!("{e:?}"));
                        return Box::new(|| {});
                    }
                };
                for j in 1..=n + 2 {
                    if j != i {
                        l.add_known_address(peer_id(seed, j), std::iter::once(full_addr(seed, j)));
                    }
                }
                node_tx.push(Some(spawn_node_loop(&handle, hist.clone(), i, l)));
                rr_tx.push(Some(spawn_rr_driver(&handle, world.clone(), i, rh, max_inbound)));
            }
            if let Some(behaviour) = case["rogue"].as_str() {
                let g = n + 1;
                node::CURRENT_NODE.with(|c| c.set(g));
                let cfg = base_config(&handle, seed, g, &knobs).with_user_protocol(Box::new(RogueRr { behaviour: behaviour.to_string(), max_size, handle: handle.clone() })).build();
                match Litep2p::new(cfg) {
                    Ok(mut l) => {
                        handle.spawn(g, "rogue-event-loop", async move { while l.next_event().await.is_some() {} });
                    }
                    Err(e) => {
                        handle.violation("harness:litep2p-new", format!("rogue: {e:?}"));
                        return Box::new(|| {});
                    }
                }
            }
            node::CURRENT_NODE.with(|c| c.set(0));
            // n+2: black-holed host (SYNs vanish)
            net.host_down_opt(node::node_ip(n + 2), true, false);
            {
                let world = world.clone();
                // a restarted node (same identity and address, no memory) serves requests again; it
                // issues none itself, the requests of its first life are not judged (node is "dead")
                let restart: nodesim::RestartFn = {
                    let (handle, world, hist, knobs) = (handle.clone(), world.clone(), hist.clone(), knobs.clone());
                    let keep: Arc<Mutex<Vec<(UnboundedSender<NodeCmd>, UnboundedSender<RrCmd>)>>> = Arc::new(Mutex::new(Vec::new()));
                    Arc::new(move |i: usize| {
                        if i < 1 || i > n {
                            return;
                        }
                        let prev = node::CURRENT_NODE.with(|c| c.replace(i));
                        let mut b = RrBuilder::new(ProtocolName::from("/vsim/rr/1")).with_max_size(max_size).with_timeout(Duration::from_millis(rr_timeout));
                        if let Some(m) = max_inbound {
                            b = b.with_max_concurrent_inbound_requests(m);
                        }
                        let (rc, rh) = b.build();
                        let cfg = base_config(&handle, seed, i, &knobs).with_request_response_protocol(rc).build();
                        match Litep2p::new(cfg) {
                            Ok(mut l) => {
                                for j in 1..=n {
                                    if j != i {
                                        l.add_known_address(peer_id(seed, j), std::iter::once(full_addr(seed, j)));
                                    }
                                }
                                handle.event(format!("n{i} restarted"));
                                handle.probe("node-restarted");
                                let a = spawn_node_loop(&handle, hist.clone(), i, l);
                                let d = spawn_rr_driver(&handle, world.clone(), i, rh, max_inbound);
                                keep.lock().unwrap().push((a, d));
                            }
                            Err(e) => handle.event(format!("n{i} restart failed: {e:?}")),
                        }
                        node::CURRENT_NODE.with(|c| c.set(prev));
                    })
                };
                nodesim::spawn_fault_driver_ex(&handle, &net, &faults, Some(Arc::new(move |node, _| {
                    world.lock().unwrap().dead.insert(node, true);
                })), Some(restart));
            }
            // ops driver
            {
                let h = handle.clone();
                let ops = ops.clone();
                let world = world.clone();
                handle.spawn(0, "ops-driver", async move {
                    let start = tokio::time::Instant::now();
                    for o in ops {
                        tokio::time::sleep_until(start + Duration::from_millis(o["at_ms"].as_u64().unwrap_or(0))).await;
                        let i = o["node"].as_u64().unwrap_or(1) as usize;
                        if i == 0 || i > n || world.lock().unwrap().dead.contains_key(&i) {
                            continue;
                        }
                        match o["op"].as_str().unwrap_or("") {
                            "connect" => {
                                let j = o["to"].as_u64().unwrap_or(1) as usize;
                                if let Some(tx) = &node_tx[i] {
                                    let _ = tx.send(NodeCmd::DialAddress(full_addr(seed, j)));
                                }
                            }
                            "request" => {
                                let j = o["to"].as_u64().unwrap_or(1) as usize;
                                let beh = match o["beh"].as_str().unwrap_or("answer") {
                                    "late" => 1,
                                    "reject" => 2,
                                    "stall" => 3,
                                    _ => 0,
                                };
                                let uid = o["uid"].as_u64().unwrap_or(0) | ((i as u64) << 48);
                                let payload = make_request(beh, o["delay_ms"].as_u64().unwrap_or(0) as u16, o["resp_size"].as_u64().unwrap_or(8) as u32, uid, o["size"].as_u64().unwrap_or(HDR as u64) as usize);
                                if let Some(tx) = &rr_tx[i] {
                                    let _ = tx.send(RrCmd::Request { to: peer_id(seed, j), to_idx: j, payload, uid, dial: o["dial"].as_bool().unwrap_or(true), try_send: o["try"].as_bool().unwrap_or(false) });
                                }
                            }
                            "cancel" => {
                                if let Some(tx) = &rr_tx[i] {
                                    let _ = tx.send(RrCmd::Cancel { nth: o["nth"].as_u64().unwrap_or(0) as usize });
                                }
                            }
                            _ => {}
                        }
                    }
                    h.event("ops done");
                });
            }
            // end-of-run oracle
            let h = handle.clone();
            let hist2 = hist.clone();
            Box::new(move || {
                let w = world.lock().unwrap();
                let hist = hist2.lock().unwrap();
                for r in w.reqs.iter() {
                    if w.dead.contains_key(&r.node) {
                        continue;
                    }
                    if r.terminal.is_none() && !r.cancelled {
                        let connected = was_connected_at(&hist, r.node, peer_id(seed, r.to_idx), r.issued_ns);
                        let _ = connected;
                        h.violation(
                            format!("no-terminal:{}", r.mode),
                            format!(
                                "node {} request {:?} (uid {:x}) to node {} issued at {:.3}s has neither response nor failure at the horizon {:.3}s",
                                r.node,
                                r.id,
                                r.uid,
                                r.to_idx,
                                r.issued_ns as f64 / 1e9,
                                vnow().as_secs_f64()
                            ),
                        );
                        return;
                    }
                }
            })
        })
    }
}

fn was_connected_at(hist: &[(u64, usize, ConnEv)], node: usize, peer: PeerId, t: u64) -> bool {
    let mut c = false;
    for (at, n, e) in hist.iter() {
        if *n != node || *at > t {
            continue;
        }
        match e {
            ConnEv::Established { peer: p, .. } if *p == peer => c = true,
            ConnEv::Closed { peer: p } if *p == peer => c = false,
            _ => {}
        }
    }
    c
}

fn spawn_rr_driver(handle: &Handle, world: Arc<Mutex<World>>, i: usize, mut rh: RequestResponseHandle, max_inbound: Option<usize>) -> UnboundedSender<RrCmd> {
    let (tx, mut rx): (UnboundedSender<RrCmd>, UnboundedReceiver<RrCmd>) = unbounded_channel();
    let h = handle.clone();
    handle.spawn(i, "rr-user", async move {
        let mut my_reqs: Vec<RequestId> = Vec::new();
        // late responses: (deadline, request id, response)
        let mut late: Vec<(tokio::time::Instant, RequestId, Vec<u8>)> = Vec::new();
        // inbound requests handed to the user and not yet answered
        let mut unanswered: usize = 0;
        let mut stalled: Vec<RequestId> = Vec::new();
        // requests for which a dial is believed to be in flight: peer -> count
        let mut dialing: BTreeMap<usize, usize> = BTreeMap::new();
        let mut connected: BTreeMap<PeerId, bool> = BTreeMap::new();
        let _ = &mut connected;
        let mut cmds_open = true;
        loop {
            let next_late = late.iter().map(|l| l.0).min();
            tokio::select! {
                biased;
                cmd = rx.recv(), if cmds_open => match cmd {
                    None => cmds_open = false,
                    Some(RrCmd::Request { to, to_idx, payload, uid, dial, try_send }) => {
                        let opt = if dial { DialOptions::Dial } else { DialOptions::Reject };
                        let (_, _, resp_size, _) = parse_request(&payload).unwrap();
                        let len = payload.len();
                        let r = if try_send { rh.try_send_request(to, payload, opt) } else { rh.send_request(to, payload, opt).await };
                        match r {
                            Ok(id) => {
                                h.event(format!("n{i} send_request -> {:?} uid={uid:x} to=n{to_idx} len={len} dial={dial}", id));
                                let mut w = world.lock().unwrap();
                                if w.reqs.iter().any(|r| r.node == i && r.id == id) {
                                    drop(w);
                                    h.violation("request-id-reused", format!("node {i}: request id {:?} returned twice", id));
                                    continue;
                                }
                                let pending_same = w.reqs.iter().filter(|r| r.node == i && r.to_idx == to_idx && r.terminal.is_none()).count();
                                let mode = if !dial { "no-dial" } else if pending_same > 0 { "peer-has-pending" } else { "first" };
                                *dialing.entry(to_idx).or_insert(0) += 1;
                                w.reqs.push(Req { node: i, id, uid, to_idx, resp_size, issued_ns: vnow().as_nanos() as u64, cancelled: false, terminal: None, mode });
                                my_reqs.push(id);
                            }
                            Err(e) => {
                                h.event(format!("n{i} send_request failed: {e:?}"));
                            }
                        }
                    }
                    Some(RrCmd::Cancel { nth }) => {
                        if let Some(id) = my_reqs.get(nth).cloned() {
                            {
                                let mut w = world.lock().unwrap();
                                if let Some(r) = w.reqs.iter_mut().find(|r| r.node == i && r.id == id) {
                                    r.cancelled = true;
                                }
                            }
                            h.event(format!("n{i} cancel_request({:?})", id));
                            rh.cancel_request(id).await;
                        }
                    }
                },
                _ = async { tokio::time::sleep_until(next_late.unwrap()).await }, if next_late.is_some() => {
                    let now = tokio::time::Instant::now();
                    let mut k = 0;
                    while k < late.len() {
                        if late[k].0 <= now {
                            let (_, id, resp) = late.remove(k);
                            h.event(format!("n{i} send_response(late) {:?} len={}", id, resp.len()));
                            rh.send_response(id, resp);
                            unanswered -= 1;
                        } else {
                            k += 1;
                        }
                    }
                }
                ev = rh.next() => match ev {
                    None => { h.event(format!("n{i} rr handle ended")); break; }
                    Some(RequestResponseEvent::RequestReceived { peer, request_id, request, .. }) => {
                        let Some((beh, delay, resp_size, uid)) = parse_request(&request) else {
                            h.violation("garbled-request", format!("node {i} received a request of {} bytes that no one sent", request.len()));
                            continue;
                        };
                        h.event(format!("n{i} RequestReceived {:?} from {} uid={uid:x} len={} beh={beh}", request_id, short(&peer), request.len()));
                        // integrity: the padding must be what the requester generated
                        let expect = make_request(beh, delay, resp_size, uid, request.len());
                        if expect != request {
                            h.violation("garbled-request", format!("node {i}: request uid {uid:x} arrived altered"));
                            continue;
                        }
                        {
                            let mut w = world.lock().unwrap();
                            let c = w.seen.entry((i, uid)).or_insert(0);
                            *c += 1;
                            if *c > 1 {
                                drop(w);
                                h.violation("request-delivered-twice", format!("node {i} saw request uid {uid:x} twice"));
                                continue;
                            }
                        }
                        unanswered += 1;
                        if let Some(m) = max_inbound {
                            if unanswered > m {
                                h.violation("inbound-bound-exceeded", format!("node {i}: {unanswered} unanswered inbound requests, configured bound {m}"));
                                continue;
                            }
                        }
                        match beh {
                            0 => {
                                let resp = make_response(uid, resp_size);
                                h.event(format!("n{i} send_response {:?} len={}", request_id, resp.len()));
                                rh.send_response(request_id, resp);
                                unanswered -= 1;
                            }
                            1 => late.push((tokio::time::Instant::now() + Duration::from_millis(delay as u64), request_id, make_response(uid, resp_size))),
                            2 => {
                                h.event(format!("n{i} reject_request {:?}", request_id));
                                rh.reject_request(request_id);
                                unanswered -= 1;
                            }
                            _ => stalled.push(request_id),
                        }
                    }
                    Some(RequestResponseEvent::ResponseReceived { peer, request_id, response, .. }) => {
                        h.event(format!("n{i} ResponseReceived {:?} from {} len={}", request_id, short(&peer), response.len()));
                        let mut w = world.lock().unwrap();
                        let (rogue_idx, max_size_cfg) = (w.rogue_idx, w.max_size);
                        let Some(r) = w.reqs.iter_mut().find(|r| r.node == i && r.id == request_id) else {
                            drop(w);
                            h.violation("unknown-request-id", format!("node {i}: ResponseReceived for {:?} which was never issued", request_id));
                            continue;
                        };
                        if let Some(t) = &r.terminal {
                            let d = format!("node {i}: second terminal event for {:?}: ResponseReceived after {t}", request_id);
                            drop(w);
                            h.violation("second-terminal", d);
                            continue;
                        }
                        r.terminal = Some("response".into());
                        let expect = make_response(r.uid, r.resp_size);
                        if Some(r.to_idx) == rogue_idx {
                            // the rogue answers what it likes; the configured bound still holds
                            if response.len() > max_size_cfg {
                                let d = format!("node {i}: response of {} bytes delivered for {:?}, the configured maximum is {}", response.len(), request_id, max_size_cfg);
                                drop(w);
                                h.violation("oversize-response-delivered", d);
                            }
                            continue;
                        }
                        if expect != response {
                            let d = format!("node {i}: response for {:?} (uid {:x}) differs from what the responder supplied: {} bytes vs {} expected", request_id, r.uid, response.len(), expect.len());
                            drop(w);
                            h.violation("wrong-response", d);
                            continue;
                        }
                        h.probe("response-verified");
                    }
                    Some(RequestResponseEvent::RequestFailed { peer, request_id, error }) => {
                        h.event(format!("n{i} RequestFailed {:?} to {} {:?}", request_id, short(&peer), error));
                        let mut w = world.lock().unwrap();
                        let Some(r) = w.reqs.iter_mut().find(|r| r.node == i && r.id == request_id) else {
                            drop(w);
                            h.violation("unknown-request-id", format!("node {i}: RequestFailed for {:?} which was never issued", request_id));
                            continue;
                        };
                        if let Some(t) = &r.terminal {
                            let d = format!("node {i}: second terminal event for {:?}: RequestFailed({error:?}) after {t}", request_id);
                            drop(w);
                            h.violation("second-terminal", d);
                            continue;
                        }
                        r.terminal = Some(format!("failed:{error:?}"));
                        drop(w);
                        let kind: String = format!("{error:?}").chars().take_while(|c| c.is_alphanumeric()).collect();
                        h.probe(&format!("failed:{kind}"));
                    }
                },
            }
        }
    });
    tx
}
