//! C14 — the Kademlia routing table places and returns peers by XOR distance.
//!
//! No scheduler or clock is involved; what is explored are *histories* of the events Kademlia
//! feeds into its routing table (peer discovered, connected, disconnected, dial failed) over two
//! peer populations: genuine peer ids (their SHA-256 keys fall into the far buckets, which
//! overflow through the real API) and crafted raw keys (hook H3) that populate every bucket
//! 0..255. After every event `closest(target, k)` is compared with a brute-force model.
use crate::node::peer_id;
use crate::rng::Rng;
use crate::runner::{Budget, Describe, Prop, Tier};
use crate::sim::{Handle, RunOutput, SimStats};
use litep2p::{
    protocol::libp2p::kademlia::verif::{connection_of, key_of, peer_of, set_connection, ConnectionType, KBucketEntry, KademliaPeer, Key, RoutingTable},
    transport::Endpoint,
    types::ConnectionId,
    PeerId,
};
use multiaddr::Multiaddr;
use serde_json::{json, Value};
use sha2::{Digest, Sha256};
use std::collections::BTreeMap;

pub struct C14;

pub fn sha_pub(b: &[u8]) -> [u8; 32] {
    sha(b)
}

pub fn xor_pub(a: &[u8; 32], b: &[u8; 32]) -> [u8; 32] {
    xor(a, b)
}

fn sha(b: &[u8]) -> [u8; 32] {
    let d = Sha256::digest(b);
    let mut o = [0u8; 32];
    o.copy_from_slice(&d);
    o
}

fn xor(a: &[u8; 32], b: &[u8; 32]) -> [u8; 32] {
    let mut o = [0u8; 32];
    for i in 0..32 {
        o[i] = a[i] ^ b[i];
    }
    o
}

/// index of the highest set bit (0..=255), None for zero
fn ilog2(d: &[u8; 32]) -> Option<usize> {
    for (i, b) in d.iter().enumerate() {
        if *b != 0 {
            return Some((31 - i) * 8 + (7 - b.leading_zeros() as usize));
        }
    }
    None
}

/// distance with exactly bit `b` as highest bit, lower bits from `noise`
fn dist_in_bucket(b: usize, noise: &[u8; 32]) -> [u8; 32] {
    let mut d = [0u8; 32];
    for bit in 0..b {
        let byte = 31 - bit / 8;
        if noise[byte] & (1 << (bit % 8)) != 0 {
            d[byte] |= 1 << (bit % 8);
        }
    }
    d[31 - b / 8] |= 1 << (b % 8);
    d
}

#[derive(Clone)]
struct MPeer {
    peer: PeerId,
    key: [u8; 32],
    connected: bool,
    has_addr: bool,
    crafted: bool,
}

fn addr(k: usize) -> Multiaddr {
    format!("/ip4/10.9.{}.{}/tcp/{}", (k / 250) % 250, k % 250, 2000 + k % 30_000).parse().unwrap()
}

impl Prop for C14 {
    fn id(&self) -> &'static str {
        "C14"
    }

    fn budget(&self, tier: Tier) -> Budget {
        match tier {
            Tier::Quick => Budget { runs: 4000, wall_s: 60.0 },
            Tier::Thorough => Budget { runs: 200_000, wall_s: 540.0 },
        }
    }

    fn describe(&self) -> Describe {
        Describe {
            level: "exploration",
            rule: "each case = one seeded history (no scheduler: the routing table is only used from Kademlia's task) of add_known_peer / connection established / disconnect / dial failure events over up to 150 genuine peer ids (far buckets overflow through the real API) and crafted raw keys in every bucket 0..255, with closest(target, k) queries for targets in every bucket relative to the local key (incl. the local key itself and distances 1, 2, 3) and k in {1, 3, 20, 60}; non-trivial = at least one bucket overflowed or a crafted low bucket was populated (probes); distinct = distinct history hash".into(),
            real: vec!["kademlia RoutingTable", "KBucket (entry / replacement of disconnected peers)", "ClosestBucketsIter", "Key / Distance"],
            stub: vec!["the peers themselves (events are applied the way Kademlia applies them)", "crafted-key insertion uses the guarded hook RoutingTable::verif_insert_raw"],
            assumptions: vec!["decided with the reference-model part of the technique: histories of network-driven events, no interleaving to explore (scheduler: none)", "bucket 0..237 can only be populated with crafted keys: a genuine peer id landing there needs a 2^-18 or rarer SHA-256 coincidence"],
        }
    }

    fn nontrivial(&self, out: &RunOutput) -> bool {
        out.probes.contains_key("bucket-full-insert") || out.probes.contains_key("crafted-low-bucket")
    }

    fn gen(&self, seed: u64, tier: Tier) -> Value {
        let mut rng = Rng::fork(seed, "c14-gen");
        let n = match tier {
            Tier::Quick => rng.range(5, 120),
            Tier::Thorough => rng.range(5, 300),
        };
        let npeers = *rng.pick(&[10u64, 60, 150]);
        let mut ops = Vec::new();
        // fill the far buckets beyond their capacity early in most histories
        if rng.chance(3, 4) {
            let conn = rng.below(4);
            for p in 0..rng.range(30, 140) {
                ops.push(json!({"op": "add", "peer": 2 + p, "addrs": 1, "conn": if rng.chance(1, 3) { rng.below(4) } else { conn }}));
            }
        }
        if rng.chance(1, 3) {
            let b = rng.range(0, 255);
            for _ in 0..rng.range(18, 26) {
                ops.push(json!({"op": "craft", "bucket": b, "noise": rng.next(), "addrs": 1, "conn": rng.below(4)}));
            }
        }
        for _ in 0..n {
            let p = 2 + rng.below(npeers);
            let op = match rng.below(14) {
                0 | 1 | 2 | 3 => json!({"op": "add", "peer": p, "addrs": rng.range(1, 3), "conn": rng.below(4)}),
                4 | 5 => json!({"op": "connect", "peer": p}),
                6 | 7 => json!({"op": "disconnect", "peer": p}),
                8 => json!({"op": "dial_failure", "peer": p}),
                9 => json!({"op": "add", "peer": 1, "addrs": 1, "conn": 0}),
                10 | 11 => json!({"op": "craft", "bucket": match rng.below(3) { 0 => rng.below(4), 1 => rng.below(256), _ => rng.range(230, 255) }, "noise": rng.next(), "addrs": if rng.chance(1, 8) { 0 } else { 1 }, "conn": rng.below(4)}),
                _ => json!({"op": "closest", "bucket": match rng.below(4) { 0 => Value::Null, 1 => json!(rng.below(3)), _ => json!(rng.below(256)) }, "noise": rng.next(), "k": *rng.pick(&[1u64, 3, 20, 60])}),
            };
            ops.push(op);
        }
        json!({"property": "C14", "seed": seed, "ops": ops})
    }

    fn run(&self, case: &Value, verbose: bool) -> RunOutput {
        let handle = Handle::new(verbose);
        let seed = case["seed"].as_u64().unwrap_or(0);
        let ops: Vec<Value> = case["ops"].as_array().cloned().unwrap_or_default();
        let r = std::panic::catch_unwind(std::panic::AssertUnwindSafe(|| run_history(seed, &ops, &handle)));
        if let Err(e) = r {
            let msg = e.downcast_ref::<&str>().map(|s| s.to_string()).or_else(|| e.downcast_ref::<String>().cloned()).unwrap_or_default();
            handle.violation(format!("panic:routing-table:{}", msg.chars().take(50).collect::<String>()), format!("routing table panicked: {msg}"));
        }
        let g = handle.0.lock().unwrap();
        RunOutput { violation: g.violation.clone(), trace_hash: g.trace_hash, stats: SimStats { polls: ops.len() as u64, choice_points: 1, ..Default::default() }, faults_fired: g.faults_fired.clone(), probes: g.probes.clone(), log: g.log.clone() }
    }
}

fn run_history(seed: u64, ops: &[Value], h: &Handle) {
    let local = peer_id(seed, 1);
    let local_key = sha(&local.to_bytes());
    let mut table = RoutingTable::new(Key::from(local));
    // model: every peer the table was told about and that the table accepted
    let mut model: BTreeMap<PeerId, MPeer> = BTreeMap::new();
    let mut crafted_n = 0usize;
    let mut was_present: std::collections::BTreeSet<PeerId> = std::collections::BTreeSet::new();
    let conn_of = |c: u64| match c {
        0 => ConnectionType::NotConnected,
        1 => ConnectionType::Connected,
        2 => ConnectionType::CanConnect,
        _ => ConnectionType::CannotConnect,
    };
    for (step, op) in ops.iter().enumerate() {
        h.event(format!("step {step}: {op}"));
        match op["op"].as_str().unwrap_or("") {
            "add" => {
                let pi = op["peer"].as_u64().unwrap_or(2) as usize;
                let p = peer_id(seed, pi);
                let n = op["addrs"].as_u64().unwrap_or(1) as usize;
                let conn = conn_of(op["conn"].as_u64().unwrap_or(0));
                table.add_known_peer(p, (0..n).map(|k| addr(pi * 4 + k)).collect(), conn);
                if p != local {
                    let key = sha(&p.to_bytes());
                    // whether it was accepted is observed below (presence probe)
                    model.entry(p).or_insert(MPeer { peer: p, key, connected: false, has_addr: true, crafted: false });
                    let e = model.get_mut(&p).unwrap();
                    e.connected = conn == ConnectionType::Connected;
                    e.has_addr = true;
                }
            }
            "connect" => {
                let pi = op["peer"].as_u64().unwrap_or(2) as usize;
                let p = peer_id(seed, pi);
                table.on_connection_established(Key::from(p), Endpoint::Dialer { address: addr(pi * 4), connection_id: ConnectionId::from(step) });
                if let Some(e) = model.get_mut(&p) {
                    e.connected = true;
                }
            }
            "disconnect" => {
                let pi = op["peer"].as_u64().unwrap_or(2) as usize;
                let p = peer_id(seed, pi);
                // exactly what Kademlia::disconnect_peer does
                if let KBucketEntry::Occupied(entry) = table.entry(Key::from(p)) {
                    set_connection(entry, ConnectionType::NotConnected);
                }
                if let Some(e) = model.get_mut(&p) {
                    e.connected = false;
                }
            }
            "dial_failure" => {
                let pi = op["peer"].as_u64().unwrap_or(2) as usize;
                let p = peer_id(seed, pi);
                table.on_dial_failure(Key::from(p), &[addr(pi * 4)]);
            }
            "craft" => {
                let b = op["bucket"].as_u64().unwrap_or(0) as usize % 256;
                let noise = sha(&op["noise"].as_u64().unwrap_or(0).to_le_bytes());
                let d = dist_in_bucket(b, &noise);
                let key = xor(&local_key, &d);
                crafted_n += 1;
                let p = peer_id(seed, 10_000 + crafted_n);
                let n = op["addrs"].as_u64().unwrap_or(1) as usize;
                let conn = conn_of(op["conn"].as_u64().unwrap_or(0));
                if model.values().any(|m| m.key == key) {
                    continue;
                }
                let ok = table.verif_insert_raw(Key::verif_from_raw(key, p), KademliaPeer::new(p, (0..n).map(|k| addr(crafted_n * 4 + k)).collect(), conn));
                if ok {
                    model.insert(p, MPeer { peer: p, key, connected: conn == ConnectionType::Connected, has_addr: n > 0, crafted: true });
                    if b < 200 {
                        h.probe("crafted-low-bucket");
                    }
                }
            }
            "closest" => {}
            _ => {}
        }
        // ---- which of the peers the table was told about does it hold? (presence probe) ----
        let mut present: Vec<MPeer> = Vec::new();
        for m in model.values() {
            if !m.has_addr {
                // invisible to closest(); crafted peers without address were accepted by the hook
                continue;
            }
            let t: Key<Vec<u8>> = Key::verif_from_raw(m.key, vec![]);
            let got = table.closest(&t, 1);
            if got.first().map(|g| peer_of(g)) == Some(m.peer) {
                present.push(m.clone());
            }
        }
        // (a) the local node is never stored
        if present.iter().any(|m| m.peer == local) {
            h.violation("c14:local-node-stored", format!("step {step}: the local peer is returned by closest()"));
            return;
        }
        // (b) bucket size, (a) placement is implied by the distance order checked in (d)
        let mut per_bucket: BTreeMap<usize, usize> = BTreeMap::new();
        for m in present.iter() {
            let Some(b) = ilog2(&xor(&local_key, &m.key)) else { continue };
            *per_bucket.entry(b).or_insert(0) += 1;
        }
        for (b, c) in per_bucket.iter() {
            if *c > 20 {
                h.violation("c14:bucket-overfull", format!("step {step}: {c} peers with bucket index {b} are stored, the bound is 20"));
                return;
            }
            if *c == 20 {
                h.probe("bucket-full-insert");
            }
        }
        // (c) a connected peer is never displaced
        for m in model.values() {
            if m.connected && m.has_addr && was_present.contains(&m.peer) && !present.iter().any(|q| q.peer == m.peer) {
                h.violation("c14:connected-peer-displaced", format!("step {step}: peer {} is connected but no longer in the table", m.peer));
                return;
            }
        }
        // remember presence for (c)
        was_present = present.iter().map(|m| m.peer).collect();
        // (d) closest(target, k)
        let (target_key, k): ([u8; 32], usize) = if op["op"] == "closest" {
            let noise = sha(&op["noise"].as_u64().unwrap_or(0).to_le_bytes());
            let t = match op["bucket"].as_u64() {
                None => local_key,
                Some(b) => xor(&local_key, &dist_in_bucket(b as usize % 256, &noise)),
            };
            (t, op["k"].as_u64().unwrap_or(20) as usize)
        } else {
            (sha(&(step as u64).to_le_bytes()), 20)
        };
        let t: Key<Vec<u8>> = Key::verif_from_raw(target_key, vec![]);
        let got: Vec<PeerId> = table.closest(&t, k).iter().map(peer_of).collect();
        let mut expect: Vec<(&MPeer, [u8; 32])> = present.iter().map(|m| (m, xor(&target_key, &m.key))).collect();
        expect.sort_by(|a, b| a.1.cmp(&b.1));
        let expect_ids: Vec<PeerId> = expect.iter().take(k).map(|e| e.0.peer).collect();
        let mut seen = std::collections::BTreeSet::new();
        for g in got.iter() {
            if !seen.insert(*g) {
                h.violation("c14:duplicate-in-closest", format!("step {step}: closest(target, {k}) returned peer {g} twice (target at bucket index {:?} from the local key)", ilog2(&xor(&local_key, &target_key))));
                return;
            }
        }
        if got != expect_ids {
            let pos = got.iter().zip(expect_ids.iter()).position(|(a, b)| a != b).unwrap_or(got.len().min(expect_ids.len()));
            h.violation("c14:closest-differs-from-model", format!("step {step}: closest(target, {k}) returned {} peers, the {} stored peers sorted by XOR distance give {}; first difference at position {pos}", got.len(), present.len(), expect_ids.len()));
            return;
        }
        let _ = (key_of, connection_of);
    }
}

