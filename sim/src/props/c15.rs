//! C15 — iterative Kademlia lookups terminate with the closest responsive peers.
//!
//! The real `QueryEngine` is driven by a harness that plays Kademlia's role exactly: it drains
//! `next_action()`, turns `SendMessage` actions into outstanding requests towards a generated
//! network (who knows whom, honest / lying / silent / unreachable peers) and then lets a seeded
//! scheduler decide which outstanding request is answered, fails or stays unanswered next, with
//! clock jumps across the 10 s per-peer time-out in between.
use crate::node::peer_id;
use crate::props::c14::{sha_pub as sha, xor_pub as xor};
use crate::rng::Rng;
use crate::runner::{Budget, Describe, Prop, Tier};
use crate::sim::{run_sim, vnow, Handle, RunOutput, SchedKind};
use litep2p::{
    protocol::libp2p::kademlia::{
        verif::{peer_of, ConnectionType, KademliaMessage, KademliaPeer, QueryAction, QueryEngine},
        ContentProvider, QueryId, Quorum, Record, RecordKey,
    },
    PeerId,
};
use multiaddr::Multiaddr;
use serde_json::{json, Value};
use std::{
    collections::{BTreeMap, BTreeSet, VecDeque},
    num::NonZeroUsize,
    time::Duration,
};

pub struct C15;

fn addr(k: usize) -> Multiaddr {
    format!("/ip4/10.7.{}.{}/tcp/{}", (k / 250) % 250, k % 250, 3000 + k % 20_000).parse().unwrap()
}

fn kpeer(seed: u64, i: usize) -> KademliaPeer {
    KademliaPeer::new(peer_id(seed, i), vec![addr(i)], ConnectionType::NotConnected)
}

#[derive(Clone, Debug, PartialEq)]
enum Kind {
    FindNode,
    PutRecord,
    GetRecord,
    AddProvider,
    GetProviders,
}

struct Q {
    kind: Kind,
    target: [u8; 32],
    key: Vec<u8>,
    quorum: Value,
    contacted: Vec<usize>,
    /// outstanding lookup requests: peer -> sent at (ns)
    outstanding: BTreeMap<usize, u64>,
    answered: BTreeSet<usize>,
    learned: BTreeSet<usize>,
    terminal: Option<String>,
    partials: usize,
    records_given: usize,
    providers_given: BTreeSet<usize>,
    /// send phase of put/add-provider: peers still to be confirmed
    send_pending: Vec<usize>,
    quorum_met_at_contact: Option<usize>,
}

fn quorum_of(v: &Value) -> Quorum {
    match v.as_str() {
        Some("all") => Quorum::All,
        Some("one") => Quorum::One,
        _ => Quorum::N(NonZeroUsize::new(v.as_u64().unwrap_or(1).max(1) as usize).unwrap()),
    }
}

impl Prop for C15 {
    fn id(&self) -> &'static str {
        "C15"
    }

    fn budget(&self, tier: Tier) -> Budget {
        match tier {
            Tier::Quick => Budget { runs: 15_000, wall_s: 60.0 },
            Tier::Thorough => Budget { runs: 1_500_000, wall_s: 540.0 },
        }
    }

    fn describe(&self) -> Describe {
        Describe {
            level: "exploration",
            rule: "each case = one seeded run of 1-3 concurrent queries (FIND_NODE, PUT_VALUE, GET_VALUE with each quorum, ADD_PROVIDER, GET_PROVIDERS) on the real QueryEngine against a generated network of 4-40 peers with a who-knows-whom graph and per-peer behaviour (honest, lying: arbitrary lists incl. the local node / already queried peers / duplicates / itself, silent, unreachable), replication k in {1,3,20}, parallelism alpha in {1,2,3,10}; the seeded scheduler picks which outstanding request is answered, fails or waits next and when the clock jumps across the 10 s peer time-out; non-trivial = >= 2 requests were outstanding at some decision point (probe); distinct = distinct trace hash".into(),
            real: vec!["kademlia QueryEngine", "FindNodeContext", "GetRecordContext", "GetProvidersContext", "PutToTargetPeersContext / FindManyNodesContext", "KademliaMessage (typed replies)"],
            stub: vec!["the remote peers (graph + behaviour model)", "Kademlia's event loop is replaced by a harness that applies the same calls (next_action until None, register_response / _failure / send_success / send_failure)", "clock (std Instant on the simulated clock)"],
            assumptions: vec!["a request to a silent peer is failed by the harness only after 15 simulated seconds, as Kademlia's executor read time-out does", "pre-emption granularity: one engine call"],
        }
    }

    fn nontrivial(&self, out: &RunOutput) -> bool {
        out.probes.contains_key("choice-among-outstanding")
    }

    fn gen(&self, seed: u64, _tier: Tier) -> Value {
        let mut rng = Rng::fork(seed, "c15-gen");
        let n = *rng.pick(&[4u64, 6, 10, 20, 40]);
        let mut peers = Vec::new();
        for i in 0..n {
            let beh = *rng.pick(&["honest", "honest", "honest", "honest", "honest", "liar", "silent", "unreachable"]);
            let knows: Vec<u64> = (0..n).filter(|j| *j != i && rng.chance(2, 5)).map(|j| j + 2).collect();
            peers.push(json!({"beh": beh, "knows": knows, "has_record": rng.chance(1, 3), "provides": rng.chance(1, 3)}));
        }
        let nq = rng.range(1, 3);
        let mut queries = Vec::new();
        for _ in 0..nq {
            let kind = *rng.pick(&["find_node", "find_node", "put_record", "get_record", "add_provider", "get_providers"]);
            let quorum = match rng.below(3) {
                0 => json!("all"),
                1 => json!("one"),
                _ => json!(rng.range(1, 4)),
            };
            queries.push(json!({"kind": kind, "target": rng.range(2, n + 6), "key": *rng.pick(&["ka", "kb"]), "quorum": quorum, "initial": rng.range(0, 6)}));
        }
        json!({
            "property": "C15",
            "seed": seed,
            "sched": {"kind": "fifo"},
            "k": *rng.pick(&[1u64, 3, 20]),
            "alpha": *rng.pick(&[1u64, 2, 3, 10]),
            "peers": peers,
            "ops": queries,
            "jump_pct": *rng.pick(&[0u64, 5, 20]),
            "fail_pct": *rng.pick(&[0u64, 10, 30]),
        })
    }

    fn shrink_keys(&self) -> Vec<&'static str> {
        vec!["ops"]
    }

    fn run(&self, case: &Value, verbose: bool) -> RunOutput {
        let case = case.clone();
        let seed = case["seed"].as_u64().unwrap_or(0);
        run_sim(seed, SchedKind::Fifo, Duration::from_secs(100_000), 5_000_000, verbose, move |handle: Handle| {
            let h = handle.clone();
            handle.spawn(1, "kademlia-role", async move {
                drive(seed, &case, &h).await;
                h.stop();
            });
            Box::new(|| {})
        })
    }
}

async fn drive(seed: u64, case: &Value, h: &Handle) {
    let local = peer_id(seed, 1);
    let k = case["k"].as_u64().unwrap_or(20) as usize;
    let alpha = case["alpha"].as_u64().unwrap_or(3) as usize;
    let peers: Vec<Value> = case["peers"].as_array().cloned().unwrap_or_default();
    let n = peers.len();
    let idx_of = |p: &PeerId| -> usize { (1..=n + 8).find(|i| &peer_id(seed, *i) == p).unwrap_or(0) };
    let key_of = |i: usize| sha(&peer_id(seed, i).to_bytes());
    let mut engine = QueryEngine::new(local, k, alpha);
    let mut rng = Rng::fork(seed, "c15-sched");
    let mut qs: BTreeMap<usize, Q> = BTreeMap::new();
    let ops: Vec<Value> = case["ops"].as_array().cloned().unwrap_or_default();
    for (qi, q) in ops.iter().enumerate() {
        let kind = match q["kind"].as_str().unwrap_or("find_node") {
            "put_record" => Kind::PutRecord,
            "get_record" => Kind::GetRecord,
            "add_provider" => Kind::AddProvider,
            "get_providers" => Kind::GetProviders,
            _ => Kind::FindNode,
        };
        let key = q["key"].as_str().unwrap_or("ka").as_bytes().to_vec();
        let target_peer = q["target"].as_u64().unwrap_or(2) as usize;
        let target = if kind == Kind::FindNode { key_of(target_peer) } else { sha(&key) };
        // initial candidates: some peers the local node knows, closest first
        let ninit = (q["initial"].as_u64().unwrap_or(3) as usize).min(n);
        let mut init: Vec<usize> = (2..n + 2).collect();
        init.sort_by_key(|i| xor(&target, &key_of(*i)));
        let mut pick = Rng::fork(seed, &format!("init{qi}"));
        let init: Vec<usize> = init.into_iter().filter(|_| pick.chance(1, 2)).take(ninit).collect();
        let cands: VecDeque<KademliaPeer> = init.iter().map(|i| kpeer(seed, *i)).collect();
        let id = QueryId(qi);
        let rk = RecordKey::new(&key);
        match kind {
            Kind::FindNode => {
                engine.start_find_node(id, peer_id(seed, target_peer), cands);
            }
            Kind::PutRecord => {
                engine.start_put_record(id, Record::new(rk.clone(), vec![1, 2, 3]), cands, quorum_of(&q["quorum"]));
            }
            Kind::GetRecord => {
                engine.start_get_record(id, rk.clone(), cands, quorum_of(&q["quorum"]), false);
            }
            Kind::AddProvider => {
                engine.start_add_provider(id, rk.clone(), ContentProvider { peer: local, addresses: vec![] }, cands, quorum_of(&q["quorum"]));
            }
            Kind::GetProviders => {
                engine.start_get_providers(id, rk.clone(), cands, vec![]);
            }
        }
        qs.insert(qi, Q { kind, target, key, quorum: q["quorum"].clone(), contacted: vec![], outstanding: BTreeMap::new(), answered: BTreeSet::new(), learned: init.iter().cloned().collect(), terminal: None, partials: 0, records_given: 0, providers_given: BTreeSet::new(), send_pending: vec![], quorum_met_at_contact: None });
    }
    let jump_pct = case["jump_pct"].as_u64().unwrap_or(0);
    let fail_pct = case["fail_pct"].as_u64().unwrap_or(0);
    let budget = 60 * (n + 10) * ops.len().max(1);
    let mut stuck = 0;
    for _step in 0..budget {
        // ---- drain the engine, as Kademlia does ----
        let mut guard = 0;
        while let Some(action) = engine.next_action() {
            guard += 1;
            if guard > 10_000 {
                h.violation("c15:engine-spins", "next_action() produced more than 10000 actions without any input".to_string());
                return;
            }
            if !handle_action(seed, action, &mut engine, &mut qs, local, k, n, h, &idx_of, &key_of) {
                return;
            }
        }
        // ---- (b) parallelism ----
        let now = vnow().as_nanos() as u64;
        for (qi, q) in qs.iter() {
            let fresh = q.outstanding.values().filter(|t| now - **t <= 10_000_000_000).count();
            if fresh > alpha && q.terminal.is_none() {
                h.violation("c15:parallelism-exceeded", format!("query {qi} ({:?}): {fresh} unanswered requests younger than the 10 s peer time-out are in flight, parallelism factor is {alpha}", q.kind));
                return;
            }
        }
        if qs.values().all(|q| q.terminal.is_some()) {
            h.probe("all-terminated");
            return;
        }
        // ---- pick the next network event ----
        let mut out: Vec<(usize, usize)> = Vec::new();
        for (qi, q) in qs.iter() {
            if q.terminal.is_none() {
                for p in q.outstanding.keys() {
                    out.push((*qi, *p));
                }
                for p in q.send_pending.iter() {
                    out.push((*qi, 1_000_000 + *p));
                }
            }
        }
        if out.len() >= 2 {
            h.probe("choice-among-outstanding");
        }
        if out.is_empty() {
            stuck += 1;
            if stuck > 3 {
                let open: Vec<usize> = qs.iter().filter(|(_, q)| q.terminal.is_none()).map(|(i, _)| *i).collect();
                h.violation("c15:no-terminal", format!("queries {open:?} have no outstanding request, next_action() returns None, yet they never produced a terminal result (also after clock jumps)"));
                return;
            }
            tokio::time::sleep(Duration::from_secs(11)).await;
            continue;
        }
        stuck = 0;
        if rng.below(100) < jump_pct {
            let d = *rng.pick(&[1u64, 5, 9, 10, 11, 16]);
            h.fault("clock_jump");
            tokio::time::sleep(Duration::from_secs(d)).await;
            continue;
        }
        let (qi, p) = out[rng.below(out.len() as u64) as usize];
        let q = qs.get_mut(&qi).unwrap();
        let id = QueryId(qi);
        if p >= 1_000_000 {
            // send phase outcome
            let p = p - 1_000_000;
            q.send_pending.retain(|x| *x != p);
            let beh = peers.get(p.wrapping_sub(2)).map(|v| v["beh"].as_str().unwrap_or("honest").to_string()).unwrap_or("unreachable".into());
            if beh == "unreachable" || rng.below(100) < fail_pct {
                engine.register_send_failure(id, peer_id(seed, p));
            } else {
                engine.register_send_success(id, peer_id(seed, p));
            }
            continue;
        }
        let beh = peers.get(p.wrapping_sub(2)).map(|v| v["beh"].as_str().unwrap_or("honest").to_string()).unwrap_or("unreachable".into());
        let sent = q.outstanding[&p];
        let age = vnow().as_nanos() as u64 - sent;
        if beh == "silent" {
            if age >= 15_000_000_000 {
                q.outstanding.remove(&p);
                h.fault("silent-peer-timeout");
                engine.register_response_failure(id, peer_id(seed, p));
            } else {
                // nothing happens for a while
                tokio::time::sleep(Duration::from_secs(*rng.pick(&[1u64, 4, 11]))).await;
            }
            continue;
        }
        q.outstanding.remove(&p);
        if beh == "unreachable" || rng.below(100) < fail_pct {
            h.fault("request-failed");
            engine.register_send_failure(id, peer_id(seed, p));
            engine.register_response_failure(id, peer_id(seed, p));
            continue;
        }
        // reply
        let knows: Vec<usize> = peers[p - 2]["knows"].as_array().map(|a| a.iter().filter_map(|x| x.as_u64()).map(|x| x as usize).collect()).unwrap_or_default();
        let list: Vec<usize> = if beh == "liar" {
            h.fault("lying-reply");
            let mut l = Vec::new();
            for _ in 0..rng.range(0, 8) {
                l.push(match rng.below(6) {
                    0 => 1,                         // the local node
                    1 => p,                         // itself
                    2 => *q.contacted.first().unwrap_or(&p), // an already queried peer
                    3 => n + 2 + rng.below(6) as usize,     // a peer that does not exist
                    _ => 2 + rng.below(n as u64) as usize,
                });
            }
            if rng.chance(1, 2) && !l.is_empty() {
                let d = l[0];
                l.push(d); // duplicate
            }
            l
        } else {
            let mut l = knows.clone();
            l.sort_by_key(|i| xor(&q.target, &key_of(*i)));
            l.truncate(20);
            l
        };
        for i in list.iter() {
            if *i != 1 {
                q.learned.insert(*i);
            }
        }
        q.answered.insert(p);
        let kp: Vec<KademliaPeer> = list.iter().map(|i| kpeer(seed, *i)).collect();
        let rk = RecordKey::new(&q.key);
        let msg = match q.kind {
            Kind::FindNode | Kind::PutRecord | Kind::AddProvider => KademliaMessage::FindNode { target: vec![], peers: kp },
            Kind::GetRecord => {
                let has = peers[p - 2]["has_record"].as_bool().unwrap_or(false);
                if has {
                    q.records_given += 1;
                }
                KademliaMessage::GetRecord { key: Some(rk.clone()), record: if has { Some(Record::new(rk.clone(), vec![p as u8])) } else { None }, peers: kp }
            }
            Kind::GetProviders => {
                let prov = peers[p - 2]["provides"].as_bool().unwrap_or(false);
                let mut provs = Vec::new();
                if prov {
                    provs.push(kpeer(seed, p));
                    q.providers_given.insert(p);
                    // and a second provider it knows of
                    if let Some(o) = knows.first() {
                        provs.push(kpeer(seed, *o));
                        q.providers_given.insert(*o);
                    }
                }
                KademliaMessage::GetProviders { key: Some(rk.clone()), peers: kp, providers: provs }
            }
        };
        engine.register_response(id, peer_id(seed, p), msg);
    }
    let open: Vec<usize> = qs.iter().filter(|(_, q)| q.terminal.is_none()).map(|(i, _)| *i).collect();
    h.violation("c15:no-terminal", format!("step budget of {budget} exhausted, queries {open:?} still have no terminal result"));
}

#[allow(clippy::too_many_arguments)]
fn handle_action(seed: u64, action: QueryAction, engine: &mut QueryEngine, qs: &mut BTreeMap<usize, Q>, local: PeerId, k: usize, n: usize, h: &Handle, idx_of: &dyn Fn(&PeerId) -> usize, key_of: &dyn Fn(usize) -> [u8; 32]) -> bool {
    let now = vnow().as_nanos() as u64;
    let _ = n;
    match action {
        QueryAction::SendMessage { query, peer, .. } => {
            let Some(q) = qs.get_mut(&query.0) else {
                h.violation("c15:action-for-unknown-query", format!("SendMessage for {query:?}"));
                return false;
            };
            if q.terminal.is_some() {
                h.violation("c15:request-after-terminal", format!("query {} issued a request to {peer} after its terminal result", query.0));
                return false;
            }
            if peer == local {
                h.violation("c15:contacted-local-node", format!("query {} ({:?}) sends a request to the local node", query.0, q.kind));
                return false;
            }
            let p = idx_of(&peer);
            if q.contacted.contains(&p) {
                h.violation("c15:peer-contacted-twice", format!("query {} ({:?}) sends a second request to peer n{p}", query.0, q.kind));
                return false;
            }
            if q.kind == Kind::GetRecord {
                if let Some(at) = q.quorum_met_at_contact {
                    let _ = at;
                    h.violation("c15:request-after-quorum", format!("GET_VALUE query {} sends a request to n{p} although its quorum {} was already met by the {} records delivered", query.0, q.quorum, q.records_given));
                    return false;
                }
            }
            q.contacted.push(p);
            q.outstanding.insert(p, now);
            h.event(format!("q{} -> n{p}", query.0));
            true
        }
        QueryAction::FindNodeQuerySucceeded { query, peers, .. } => terminal(qs, query, "find-node-success", Some(peers.iter().map(|p| idx_of(&peer_of(p))).collect()), k, h, key_of),
        QueryAction::PutRecordToFoundNodes { query, record, peers, quorum } => {
            let ids: Vec<usize> = peers.iter().map(|p| idx_of(&peer_of(p))).collect();
            if !check_result(qs, query, &ids, k, h, key_of) {
                return false;
            }
            engine.start_put_record_to_found_nodes_requests_tracking(query, record.key.clone(), peers.iter().map(peer_of).collect(), quorum);
            let q = qs.get_mut(&query.0).unwrap();
            q.outstanding.clear();
            q.send_pending = ids;
            let _ = seed;
            true
        }
        QueryAction::AddProviderToFoundNodes { query, provided_key, peers, quorum, .. } => {
            let ids: Vec<usize> = peers.iter().map(|p| idx_of(&peer_of(p))).collect();
            if !check_result(qs, query, &ids, k, h, key_of) {
                return false;
            }
            engine.start_add_provider_to_found_nodes_requests_tracking(query, provided_key, peers.iter().map(peer_of).collect(), quorum);
            let q = qs.get_mut(&query.0).unwrap();
            q.outstanding.clear();
            q.send_pending = ids;
            true
        }
        QueryAction::PutRecordQuerySucceeded { query, .. } => terminal(qs, query, "put-success", None, k, h, key_of),
        QueryAction::AddProviderQuerySucceeded { query, .. } => terminal(qs, query, "add-provider-success", None, k, h, key_of),
        QueryAction::GetRecordQueryDone { query_id } => {
            let q = qs.get(&query_id.0);
            if let Some(q) = q {
                if q.partials != q.records_given {
                    h.violation("c15:records-lost-or-duplicated", format!("GET_VALUE query {}: {} records were returned by peers, {} partial results surfaced", query_id.0, q.records_given, q.partials));
                    return false;
                }
            }
            terminal(qs, query_id, "get-record-done", None, k, h, key_of)
        }
        QueryAction::GetRecordPartialResult { query_id, .. } => {
            let Some(q) = qs.get_mut(&query_id.0) else { return true };
            if q.terminal.is_some() {
                h.violation("c15:partial-after-terminal", format!("query {}", query_id.0));
                return false;
            }
            q.partials += 1;
            if q.partials > q.records_given {
                h.violation("c15:records-lost-or-duplicated", format!("GET_VALUE query {}: partial result #{} but only {} records were returned by peers", query_id.0, q.partials, q.records_given));
                return false;
            }
            // quorum bookkeeping: once met, no further request may go out
            let need = match q.quorum.as_str() {
                Some("one") => Some(1),
                Some("all") => None,
                _ => Some(q.quorum.as_u64().unwrap_or(1) as usize),
            };
            if need.is_some_and(|n| q.partials >= n) && q.quorum_met_at_contact.is_none() {
                q.quorum_met_at_contact = Some(q.contacted.len());
            }
            true
        }
        QueryAction::GetProvidersQueryDone { query_id, providers, .. } => {
            if let Some(q) = qs.get(&query_id.0) {
                let got: Vec<usize> = providers.iter().map(|p| idx_of(&p.peer)).collect();
                let set: BTreeSet<usize> = got.iter().cloned().collect();
                if set.len() != got.len() {
                    h.violation("c15:provider-reported-twice", format!("GET_PROVIDERS query {}: provider list {:?} contains a duplicate", query_id.0, got));
                    return false;
                }
                if set != q.providers_given {
                    h.violation("c15:providers-lost-or-invented", format!("GET_PROVIDERS query {}: peers returned providers {:?}, the result lists {:?}", query_id.0, q.providers_given, set));
                    return false;
                }
            }
            terminal(qs, query_id, "get-providers-done", None, k, h, key_of)
        }
        QueryAction::QueryFailed { query } => terminal(qs, query, "failed", None, k, h, key_of),
        QueryAction::QuerySucceeded { .. } => true,
    }
}

fn check_result(qs: &mut BTreeMap<usize, Q>, query: QueryId, ids: &[usize], k: usize, h: &Handle, key_of: &dyn Fn(usize) -> [u8; 32]) -> bool {
    let Some(q) = qs.get(&query.0) else { return true };
    if ids.len() > k {
        h.violation("c15:more-than-k-results", format!("query {}: {} peers reported, replication factor {k}", query.0, ids.len()));
        return false;
    }
    let mut last: Option<[u8; 32]> = None;
    for i in ids {
        if !q.answered.contains(i) {
            h.violation("c15:reported-peer-did-not-answer", format!("query {} ({:?}): reports peer n{i}, which never answered (answered: {:?})", query.0, q.kind, q.answered));
            return false;
        }
        let d = xor(&q.target, &key_of(*i));
        if last.is_some_and(|l| l >= d) {
            h.violation("c15:result-not-sorted", format!("query {}: reported peers are not in strictly increasing distance to the target", query.0));
            return false;
        }
        last = Some(d);
    }
    if let Some(furthest) = last {
        for l in q.learned.iter() {
            if xor(&q.target, &key_of(*l)) < furthest && !q.contacted.contains(l) {
                h.violation("c15:closer-peer-not-contacted", format!("query {} ({:?}): learned of peer n{l}, closer to the target than the furthest reported peer, but never contacted it", query.0, q.kind));
                return false;
            }
        }
    }
    true
}

fn terminal(qs: &mut BTreeMap<usize, Q>, query: QueryId, what: &str, peers: Option<Vec<usize>>, k: usize, h: &Handle, key_of: &dyn Fn(usize) -> [u8; 32]) -> bool {
    if let Some(ids) = &peers {
        if !check_result(qs, query, ids, k, h, key_of) {
            return false;
        }
    }
    let Some(q) = qs.get_mut(&query.0) else {
        h.violation("c15:terminal-for-unknown-query", format!("{what} for {query:?}"));
        return false;
    };
    if let Some(t) = &q.terminal {
        h.violation("c15:second-terminal", format!("query {}: {what} after {t}", query.0));
        return false;
    }
    let ok = match (&q.kind, what) {
        (_, "failed") => true,
        (Kind::FindNode, "find-node-success") | (Kind::PutRecord, "put-success") | (Kind::AddProvider, "add-provider-success") | (Kind::GetRecord, "get-record-done") | (Kind::GetProviders, "get-providers-done") => true,
        _ => false,
    };
    if !ok {
        h.violation("c15:wrong-terminal-kind", format!("query {} of kind {:?} ended with {what}", query.0, q.kind));
        return false;
    }
    h.probe(&format!("terminal:{what}"));
    q.terminal = Some(what.to_string());
    q.outstanding.clear();
    q.send_pending.clear();
    true
}
