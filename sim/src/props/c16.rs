//! C16 — every Kademlia operation started by the user ends with exactly one terminal event.
//!
//! 3-6 complete litep2p nodes running Kademlia on SimNet, bootstrapped into a line / star / clique,
//! plus ghost peers: one whose address refuses connections, one whose address is a black hole, one
//! known only by an address no enabled transport can dial, one without any address.
use crate::node::{self, base_config, full_addr, gen_node_knobs, node_ip, peer_id};
use crate::nodesim;
use crate::rng::Rng;
use crate::runner::{Budget, Describe, Prop, Tier};
use crate::sim::{run_sim, vnow, Handle, RunOutput, SchedKind};
use crate::simnet::{NetKnobs, SimNet};
use futures::StreamExt;
use litep2p::{
    codec::ProtocolCodec,
    protocol::libp2p::kademlia::{verif::KademliaMessage, ConfigBuilder as KadBuilder, KademliaEvent, KademliaHandle, Quorum, Record, RecordKey, RoutingTableUpdateMode},
    protocol::{TransportEvent, TransportService, UserProtocol},
    substream::Substream,
    Litep2p, Litep2pEvent, PeerId, ProtocolName,
};
use multiaddr::Multiaddr;
use serde_json::{json, Value};
use std::{
    collections::BTreeMap,
    num::NonZeroUsize,
    sync::{Arc, Mutex},
    time::Duration,
};
use tokio::sync::mpsc::{unbounded_channel, UnboundedReceiver, UnboundedSender};

pub struct C16;

#[derive(Clone, Debug)]
enum K {
    Issued { qid: String, kind: &'static str, key: String, value: Vec<u8>, quorum: String, peers: Vec<usize> },
    Terminal { qid: String, kind: &'static str, detail: String },
    Partial { qid: String },
    IncomingRecord { key: String, value: Vec<u8> },
    IncomingProvider { key: String, provider: usize },
    /// the rogue Kademlia speaker read a request of `len` bytes from node `from`
    RogueGot { from: usize, len: usize },
    Killed,
    Ended,
}

#[derive(Clone, Debug)]
struct Rec {
    t: u64,
    node: usize,
    k: K,
}

type Log = Arc<Mutex<Vec<Rec>>>;

fn push(log: &Log, h: &Handle, node: usize, k: K) {
    let t = vnow().as_nanos() as u64;
    let mut line = format!("n{node} {k:?}");
    if line.len() > 400 {
        // oversize keys / values: keep the trace readable, the length still distinguishes
        let len = line.len();
        let mut cut = 300;
        while !line.is_char_boundary(cut) {
            cut -= 1;
        }
        line.truncate(cut);
        line.push_str(&format!("...[{len} chars]"));
    }
    h.event(line);
    log.lock().unwrap().push(Rec { t, node, k });
}

#[derive(Debug)]
enum Cmd {
    FindNode { target: usize },
    Put { key: String, value: Vec<u8>, quorum: Value },
    PutTo { key: String, value: Vec<u8>, peers: Vec<usize>, quorum: Value, update_local: bool },
    Get { key: String, quorum: Value },
    Provide { key: String, quorum: Value },
    GetProviders { key: String },
}

fn quorum_of(v: &Value) -> Quorum {
    match v.as_str() {
        Some("all") => Quorum::All,
        Some("one") => Quorum::One,
        _ => Quorum::N(NonZeroUsize::new(v.as_u64().unwrap_or(1).max(1) as usize).unwrap()),
    }
}

fn peer_index(seed: u64, total: usize, p: &PeerId) -> usize {
    (1..=total).find(|i| &peer_id(seed, *i) == p).unwrap_or(0)
}

fn key_str(k: &RecordKey) -> String {
    String::from_utf8_lossy(&k.to_vec()).to_string()
}

fn spawn_driver(handle: &Handle, log: Log, seed: u64, total: usize, i: usize, mut kh: KademliaHandle) -> UnboundedSender<Cmd> {
    let (tx, mut rx): (UnboundedSender<Cmd>, UnboundedReceiver<Cmd>) = unbounded_channel();
    let h = handle.clone();
    handle.spawn(i, "kad-user", async move {
        let mut open = true;
        loop {
            tokio::select! {
                biased;
                cmd = rx.recv(), if open => match cmd {
                    None => open = false,
                    Some(Cmd::FindNode { target }) => {
                        let q = kh.find_node(peer_id(seed, target)).await;
                        push(&log, &h, i, K::Issued { qid: format!("{q:?}"), kind: "find_node", key: format!("n{target}"), value: vec![], quorum: String::new(), peers: vec![] });
                    }
                    Some(Cmd::Put { key, value, quorum }) => {
                        let q = kh.put_record(Record::new(key.clone().into_bytes(), value.clone()), quorum_of(&quorum)).await;
                        push(&log, &h, i, K::Issued { qid: format!("{q:?}"), kind: "put_record", key, value, quorum: quorum.to_string(), peers: vec![] });
                    }
                    Some(Cmd::PutTo { key, value, peers, quorum, update_local }) => {
                        let q = kh.put_record_to_peers(Record::new(key.clone().into_bytes(), value.clone()), peers.iter().map(|p| peer_id(seed, *p)).collect(), update_local, quorum_of(&quorum)).await;
                        push(&log, &h, i, K::Issued { qid: format!("{q:?}"), kind: "put_record_to_peers", key, value, quorum: quorum.to_string(), peers });
                    }
                    Some(Cmd::Get { key, quorum }) => {
                        let q = kh.get_record(RecordKey::new(&key.clone().into_bytes()), quorum_of(&quorum)).await;
                        push(&log, &h, i, K::Issued { qid: format!("{q:?}"), kind: "get_record", key, value: vec![], quorum: quorum.to_string(), peers: vec![] });
                    }
                    Some(Cmd::Provide { key, quorum }) => {
                        let q = kh.start_providing(RecordKey::new(&key.clone().into_bytes()), quorum_of(&quorum)).await;
                        push(&log, &h, i, K::Issued { qid: format!("{q:?}"), kind: "start_providing", key, value: vec![], quorum: quorum.to_string(), peers: vec![] });
                    }
                    Some(Cmd::GetProviders { key }) => {
                        let q = kh.get_providers(RecordKey::new(&key.clone().into_bytes())).await;
                        push(&log, &h, i, K::Issued { qid: format!("{q:?}"), kind: "get_providers", key, value: vec![], quorum: String::new(), peers: vec![] });
                    }
                },
                ev = kh.next() => match ev {
                    None => { push(&log, &h, i, K::Ended); break; }
                    Some(KademliaEvent::FindNodeSuccess { query_id, peers, .. }) => push(&log, &h, i, K::Terminal { qid: format!("{query_id:?}"), kind: "find_node", detail: format!("{} peers", peers.len()) }),
                    Some(KademliaEvent::GetRecordSuccess { query_id }) => push(&log, &h, i, K::Terminal { qid: format!("{query_id:?}"), kind: "get_record", detail: String::new() }),
                    Some(KademliaEvent::GetRecordPartialResult { query_id, .. }) => push(&log, &h, i, K::Partial { qid: format!("{query_id:?}") }),
                    Some(KademliaEvent::GetProvidersSuccess { query_id, providers, .. }) => push(&log, &h, i, K::Terminal { qid: format!("{query_id:?}"), kind: "get_providers", detail: format!("{} providers", providers.len()) }),
                    Some(KademliaEvent::PutRecordSuccess { query_id, .. }) => push(&log, &h, i, K::Terminal { qid: format!("{query_id:?}"), kind: "put", detail: "success".into() }),
                    Some(KademliaEvent::AddProviderSuccess { query_id, .. }) => push(&log, &h, i, K::Terminal { qid: format!("{query_id:?}"), kind: "start_providing", detail: "success".into() }),
                    Some(KademliaEvent::QueryFailed { query_id }) => push(&log, &h, i, K::Terminal { qid: format!("{query_id:?}"), kind: "failed", detail: String::new() }),
                    Some(KademliaEvent::IncomingRecord { record }) => push(&log, &h, i, K::IncomingRecord { key: key_str(&record.key), value: record.value.clone() }),
                    Some(KademliaEvent::IncomingProvider { provided_key, provider }) => push(&log, &h, i, K::IncomingProvider { key: key_str(&provided_key), provider: peer_index(seed, total, &provider.peer) }),
                    Some(KademliaEvent::RoutingTableUpdate { .. }) => {}
                },
            }
        }
    });
    tx
}

fn gen_quorum(rng: &mut Rng) -> Value {
    match rng.below(4) {
        0 => json!("all"),
        1 => json!("one"),
        _ => json!(rng.range(1, 4)),
    }
}

/// A peer that speaks the Kademlia protocol name but misbehaves after reading a request: stays
/// silent, answers garbage / an empty frame / a well-formed message of the wrong type, or closes.
struct RogueKad {
    behaviour: String,
    handle: Handle,
    log: Log,
    seed: u64,
    total: usize,
    me: usize,
}

#[async_trait::async_trait]
impl UserProtocol for RogueKad {
    fn protocol(&self) -> ProtocolName {
        ProtocolName::from("/ipfs/kad/1.0.0")
    }
    fn codec(&self) -> ProtocolCodec {
        ProtocolCodec::UnsignedVarint(Some(70 * 1024))
    }
    async fn run(self: Box<Self>, mut service: TransportService) -> litep2p::Result<()> {
        let mut held: Vec<Substream> = Vec::new();
        while let Some(ev) = service.next().await {
            if let TransportEvent::SubstreamOpened { mut substream, peer, .. } = ev {
                let got = tokio::time::timeout(Duration::from_secs(2), substream.next()).await;
                if let Ok(Some(Ok(m))) = &got {
                    let from = (1..=self.total).find(|j| peer_id(self.seed, *j) == peer).unwrap_or(0);
                    push(&self.log, &self.handle, self.me, K::RogueGot { from, len: m.len() });
                }
                self.handle.probe(&format!("rogue-kad:{}", self.behaviour));
                match self.behaviour.as_str() {
                    "silent" => held.push(substream),
                    "close" => drop(substream),
                    "garbage" => {
                        let _ = substream.send_framed(bytes::Bytes::from_static(&[0xff, 0xfe, 0x00, 0x13, 0x37, 0xff, 0xff, 0xff, 0x01])).await;
                        held.push(substream);
                    }
                    "empty" => {
                        let _ = substream.send_framed(bytes::Bytes::new()).await;
                        held.push(substream);
                    }
                    _ => {
                        // a well-formed message nobody asked for
                        let m = KademliaMessage::put_value(Record::new(b"unasked".to_vec(), b"x".to_vec()));
                        let _ = substream.send_framed(m).await;
                        held.push(substream);
                    }
                }
                if held.len() > 64 {
                    held.remove(0);
                }
            }
        }
        Ok(())
    }
}

impl Prop for C16 {
    fn id(&self) -> &'static str {
        "C16"
    }

    fn budget(&self, tier: Tier) -> Budget {
        match tier {
            Tier::Quick => Budget { runs: 6000, wall_s: 60.0 },
            Tier::Thorough => Budget { runs: 200_000, wall_s: 540.0 },
        }
    }

    fn describe(&self) -> Describe {
        Describe {
            level: "exploration",
            rule: "each case = one seeded run of 3-6 complete litep2p nodes running Kademlia on SimNet (line / star / clique bootstrap, replication factor knob) plus ghost peers (refusing address, black-hole address, address no transport can dial, no address): in a third of the runs ghost n+1 is a live peer that speaks the Kademlia protocol name but, after reading a request, stays silent / closes / answers garbage, an empty frame or a well-formed message of the wrong type; materialised user operations (find_node, put_record with each quorum, put_record_to_peers incl. ghosts, get_record, start_providing, get_providers), fault plan (resets, half-closes, byte-offset cuts and single-bit corruption in flight, partitions, refused / black-holed / slow connects, node kill with reset or silent vanish, crash + restart with the same identity, process stalls), scheduler kind and knobs; non-trivial = scheduler had >=1 choice point; distinct = distinct trace hash".into(),
            real: vec!["Litep2p", "TransportManager", "TcpTransport", "WebSocketTransport/WebSocketConnection + tokio-tungstenite (runs with the second transport)", "Noise", "yamux", "Kademlia (event loop, QueryEngine, RoutingTable, MemoryStore, QueryExecutor)", "KademliaHandle", "TransportService"],
            stub: vec!["socket layer (SimNet)", "clock", "task scheduler (seeded)", "HashMap seeds"],
            assumptions: vec![
                "liveness is checked at the horizon: last operation/fault + 240 simulated seconds (every dial, substream, read/write and per-peer time-out of the code fits several times)",
                "the quorum-was-sent clause is asserted only in runs without connection-killing faults and without process stalls (a message handed to a connection that is then reset, or to a peer whose process never gets to read it before the connection goes away, was sent but is legitimately never seen by the receiver's application); for put_record/start_providing to the closest peers only the lower bound 'at least one node received it' is asserted because the target set is internal",
            ],
        }
    }

    fn gen(&self, seed: u64, tier: Tier) -> Value {
        let mut rng = Rng::fork(seed, "c16-gen");
        let n = rng.range(3, 6) as usize;
        let topology = *rng.pick(&["line", "star", "clique", "clique"]);
        let mut ops = Vec::new();
        let nops = match tier {
            Tier::Quick => rng.range(1, 8),
            Tier::Thorough => rng.range(1, 20),
        };
        let span = *rng.pick(&[100u64, 3000, 20_000]);
        let keys = ["k1", "k2", "k3"];
        for c in 0..nops {
            let at = 200 + rng.below(span);
            let i = 1 + rng.below(n as u64);
            let key = *rng.pick(&keys);
            let op = match rng.below(10) {
                0 | 1 => json!({"op": "find_node", "target": match rng.below(4) { 0 => n as u64 + 1 + rng.below(4), _ => 1 + rng.below(n as u64) }}),
                2 | 3 => json!({"op": "put", "key": key, "quorum": gen_quorum(&mut rng)}),
                4 | 5 => {
                    let mut peers = Vec::new();
                    for _ in 0..rng.range(0, 3) {
                        let p = if rng.chance(1, 3) { n as u64 + 1 + rng.below(4) } else { 1 + rng.below(n as u64) };
                        if p != i && !peers.contains(&p) {
                            peers.push(p);
                        }
                    }
                    json!({"op": "put_to", "key": key, "peers": peers, "quorum": gen_quorum(&mut rng), "update_local": rng.chance(1, 2)})
                }
                6 => json!({"op": "get", "key": key, "quorum": gen_quorum(&mut rng)}),
                7 | 8 => json!({"op": "provide", "key": key, "quorum": gen_quorum(&mut rng)}),
                _ => json!({"op": "get_providers", "key": key}),
            };
            let mut op = op;
            // sizes around the 70 KiB message limit of the Kademlia codec: an oversize request is
            // refused by the local framing layer after the substream has been opened (write failure)
            if rng.chance(1, 6) {
                op["value_len"] = json!(*rng.pick(&[1000u64, 60_000, 71_680, 80_000]));
            }
            if rng.chance(1, 10) {
                op["key_len"] = json!(*rng.pick(&[300u64, 71_680, 80_000]));
            }
            op["at_ms"] = json!(at);
            op["node"] = json!(i);
            op["c"] = json!(c);
            ops.push(op);
        }
        ops.sort_by_key(|o| o["at_ms"].as_u64().unwrap_or(0));
        let last = ops.iter().map(|o| o["at_ms"].as_u64().unwrap_or(0)).max().unwrap_or(0);
        let mut faults = Vec::new();
        match rng.below(5) {
            0 | 1 => {}
            2 | 3 => faults.extend(nodesim::gen_connect_faults(&mut rng, 3)),
            _ => {
                faults = nodesim::gen_faults(&mut rng, n, last + 5000, 3, true);
                faults.extend(nodesim::gen_connect_faults(&mut rng, 2));
            }
        }
        faults.extend(nodesim::gen_freeze_faults(seed, n, last + 5000));
        faults.extend(nodesim::gen_flip_faults(seed));
        nodesim::add_restarts(seed, &mut faults);
        let mut two_conn = false;
        {
            // two overlapping connections to a peer that stops answering (both applications dial each
            // other by address at the same instant), operations whose substreams are being opened on them, then
            // one (or both) of the connections is lost (independent stream of the seed)
            let mut r = Rng::fork(seed, "c16-two-connections");
            if r.chance(1, 8) {
                two_conn = true;
                let (a, b) = (1u64, 2u64);
                ops.push(json!({"op": "connect", "to": b, "at_ms": 150, "node": a, "c": 100}));
                ops.push(json!({"op": "connect", "to": a, "at_ms": 150 + r.below(3), "node": b, "c": 101}));
                let t1 = 1_500 + r.below(1_500);
                faults.push(json!({"at_ms": t1, "kind": "freeze", "node": b, "heal_after_ms": *r.pick(&[3_000u64, 20_000])}));
                for k in 0..r.range(1, 3) {
                    let key = *r.pick(&keys);
                    let op = match r.below(5) {
                        0 => json!({"op": "find_node", "target": b}),
                        1 => json!({"op": "put_to", "key": key, "peers": [b], "quorum": gen_quorum(&mut r), "update_local": false}),
                        2 => json!({"op": "get", "key": key, "quorum": gen_quorum(&mut r)}),
                        3 => json!({"op": "provide", "key": key, "quorum": gen_quorum(&mut r)}),
                        _ => json!({"op": "get_providers", "key": key}),
                    };
                    let mut op = op;
                    op["at_ms"] = json!(t1 + 30 + k);
                    op["node"] = json!(a);
                    op["c"] = json!(102 + k);
                    ops.push(op);
                }
                let t2 = t1 + 60 + r.below(300);
                faults.push(json!({"at_ms": t2, "kind": "reset_pair", "a": a, "b": b, "k": r.below(2)}));
                if r.chance(1, 3) {
                    faults.push(json!({"at_ms": t2 + r.below(500), "kind": "reset_pair", "a": a, "b": b, "k": 0}));
                }
                ops.sort_by_key(|o| o["at_ms"].as_u64().unwrap_or(0));
                faults.sort_by_key(|f| f["at_ms"].as_u64().unwrap_or(0));
            }
        }
        // ghost n+1 is, in a third of the runs, a live peer speaking the Kademlia protocol badly
        let rogue = {
            let mut r = Rng::fork(seed, "c16-rogue");
            if r.chance(1, 3) { json!(*r.pick(&["silent", "close", "garbage", "empty", "wrong_type"])) } else { Value::Null }
        };
        let mut knobs = gen_node_knobs(&mut rng);
        if rng.chance(1, 6) {
            knobs["max_out"] = json!(rng.range(1, 2));
        }
        if two_conn && knobs["keep_alive_ms"].as_u64().unwrap_or(5000) < 5000 {
            // the two connections must still be there when the peer stalls
            knobs["keep_alive_ms"] = json!(5000);
        }
        // which ghosts each node knows about
        json!({
            "property": "C16",
            "seed": seed,
            "nodes": n,
            "topology": topology,
            "replication": *rng.pick(&[2u64, 3, 20]),
            "rogue": rogue,
            "sched": SchedKind::gen(&mut rng, 6000),
            "net": NetKnobs::gen(&mut rng),
            "node_knobs": knobs,
            "ops": ops,
            "faults": faults,
        })
    }

    fn run(&self, case: &Value, verbose: bool) -> RunOutput {
        let case = case.clone();
        let seed = case["seed"].as_u64().unwrap_or(0);
        let sched = SchedKind::from_json(&case["sched"]);
        let ops: Vec<Value> = case["ops"].as_array().cloned().unwrap_or_default();
        let faults: Vec<Value> = case["faults"].as_array().cloned().unwrap_or_default();
        let knobs = case["node_knobs"].clone();
        let n = case["nodes"].as_u64().unwrap_or(3) as usize;
        let total = n + 4;
        let last_ms = ops.iter().map(|o| o["at_ms"].as_u64().unwrap_or(0)).max().unwrap_or(0).max(nodesim::last_fault_ms(&faults));
        let horizon_ms = last_ms + 240_000;
        let killing = faults.iter().any(|f| matches!(f["kind"].as_str(), Some("reset") | Some("half_close") | Some("partition") | Some("byte_reset") | Some("byte_eof") | Some("byte_flip") | Some("kill") | Some("freeze")));
        run_sim(seed, sched, Duration::from_millis(horizon_ms), 8_000_000, verbose, move |handle: Handle| {
            let net = SimNet::new(handle.clone(), seed, NetKnobs::from_json(&case["net"]));
            net.install();
            nodesim::install_static_faults(&net, &faults);
            let log: Log = Arc::new(Mutex::new(Vec::new()));
            let mut drv: Vec<Option<UnboundedSender<Cmd>>> = vec![None];
            let mut app_tx: Vec<Option<UnboundedSender<Multiaddr>>> = vec![None];
            let topology = case["topology"].as_str().unwrap_or("clique").to_string();
            let ghost_addr = |g: usize| -> Vec<Multiaddr> {
                let p = peer_id(seed, g);
                match g - n {
                    1 | 2 => vec![full_addr(seed, g)],
                    3 => vec![node::with_p2p(format!("/ip4/10.0.0.{g}/udp/{}/quic-v1", node::port(g)).parse().unwrap(), p)],
                    _ => vec![],
                }
            };
            for i in 1..=n {
                node::CURRENT_NODE.with(|c| c.set(i));
                // bootstrap peers
                let mut known: BTreeMap<usize, Vec<Multiaddr>> = BTreeMap::new();
                let neighbours: Vec<usize> = match topology.as_str() {
                    "line" => [i.wrapping_sub(1), i + 1].into_iter().filter(|j| *j >= 1 && *j <= n).collect(),
                    "star" => if i == 1 { (2..=n).collect() } else { vec![1] },
                    _ => (1..=n).filter(|j| *j != i).collect(),
                };
                for j in neighbours {
                    known.insert(j, vec![full_addr(seed, j)]);
                }
                // every node knows the ghosts
                for g in n + 1..=n + 4 {
                    known.insert(g, ghost_addr(g));
                }
                let (kc, kh) = KadBuilder::new()
                    .with_replication_factor(case["replication"].as_u64().unwrap_or(20) as usize)
                    .with_routing_table_update_mode(RoutingTableUpdateMode::Automatic)
                    .with_known_peers(known.iter().map(|(j, a)| (peer_id(seed, *j), a.clone())).collect())
                    .build();
                let cfg = base_config(&handle, seed, i, &knobs).with_libp2p_kademlia(kc).build();
                let mut l = match Litep2p::new(cfg) {
                    Ok(l) => l,
                    Err(e) => {
                        handle.violation("harness:litep2p-new", format!("{e:?}"));
                        return Box::new(|| {});
                    }
                };
                let h2 = handle.clone();
                let (atx, mut arx) = unbounded_channel::<Multiaddr>();
                app_tx.push(Some(atx));
                handle.spawn(i, "litep2p-event-loop", async move {
                    let mut open = true;
                    loop {
                        tokio::select! {
                            biased;
                            a = arx.recv(), if open => match a {
                                None => open = false,
                                Some(a) => {
                                    let r = l.dial_address(a.clone()).await;
                                    h2.event(format!("n{i} dial_address({a}) -> {r:?}"));
                                }
                            },
                            ev = l.next_event() => match ev {
                                Some(Litep2pEvent::ConnectionEstablished { peer, .. }) => h2.event(format!("n{i} established {}", node::short(&peer))),
                                Some(Litep2pEvent::ConnectionClosed { peer, .. }) => h2.event(format!("n{i} closed {}", node::short(&peer))),
                                Some(_) => {}
                                None => break,
                            }
                        }
                    }
                });
                drv.push(Some(spawn_driver(&handle, log.clone(), seed, total, i, kh)));
            }
            if let Some(behaviour) = case["rogue"].as_str() {
                let g = n + 1;
                node::CURRENT_NODE.with(|c| c.set(g));
                let cfg = base_config(&handle, seed, g, &knobs).with_user_protocol(Box::new(RogueKad { behaviour: behaviour.to_string(), handle: handle.clone(), log: log.clone(), seed, total, me: g })).build();
                match Litep2p::new(cfg) {
                    Ok(mut l) => {
                        handle.spawn(g, "rogue-event-loop", async move { while l.next_event().await.is_some() {} });
                    }
                    Err(e) => {
                        handle.violation("harness:litep2p-new", format!("rogue: {e:?}"));
                        return Box::new(|| {});
                    }
                }
            }
            node::CURRENT_NODE.with(|c| c.set(0));
            net.host_down_opt(node_ip(n + 2), true, false);
            let dead: Arc<Mutex<BTreeMap<usize, bool>>> = Arc::new(Mutex::new(BTreeMap::new()));
            {
                let dead = dead.clone();
                let log = log.clone();
                let h = handle.clone();
                // a restarted node (same identity and address, empty routing table and store except for
                // its bootstrap peers) answers Kademlia requests again; it issues no operations itself
                let restart: nodesim::RestartFn = {
                    let (handle, log, knobs, case) = (handle.clone(), log.clone(), knobs.clone(), case.clone());
                    let keep: Arc<Mutex<Vec<UnboundedSender<Cmd>>>> = Arc::new(Mutex::new(Vec::new()));
                    Arc::new(move |i: usize| {
                        if i < 1 || i > n {
                            return;
                        }
                        let prev = node::CURRENT_NODE.with(|c| c.replace(i));
                        let known: Vec<(PeerId, Vec<Multiaddr>)> = (1..=n).filter(|j| *j != i).map(|j| (peer_id(seed, j), vec![full_addr(seed, j)])).collect();
                        let (kc, kh) = KadBuilder::new()
                            .with_replication_factor(case["replication"].as_u64().unwrap_or(20) as usize)
                            .with_routing_table_update_mode(RoutingTableUpdateMode::Automatic)
                            .with_known_peers(known.into_iter().collect())
                            .build();
                        let cfg = base_config(&handle, seed, i, &knobs).with_libp2p_kademlia(kc).build();
                        match Litep2p::new(cfg) {
                            Ok(mut l) => {
                                handle.event(format!("n{i} restarted"));
                                handle.probe("node-restarted");
                                handle.spawn(i, "litep2p-event-loop", async move { while l.next_event().await.is_some() {} });
                                keep.lock().unwrap().push(spawn_driver(&handle, log.clone(), seed, total, i, kh));
                            }
                            Err(e) => handle.event(format!("n{i} restart failed: {e:?}")),
                        }
                        node::CURRENT_NODE.with(|c| c.set(prev));
                    })
                };
                nodesim::spawn_fault_driver_ex(&handle, &net, &faults, Some(Arc::new(move |node, vanish| {
                    if node >= 1 && node <= n {
                        let mut d = dead.lock().unwrap();
                        match d.get(&node).cloned() {
                            None => {
                                d.insert(node, vanish);
                                drop(d);
                                push(&log, &h, node, K::Killed);
                            }
                            Some(v) => {
                                d.insert(node, v || vanish);
                            }
                        }
                    }
                })), Some(restart));
            }
            {
                let dead = dead.clone();
                let ops = ops.clone();
                handle.spawn(0, "ops-driver", async move {
                    let start = tokio::time::Instant::now();
                    for o in ops {
                        tokio::time::sleep_until(start + Duration::from_millis(o["at_ms"].as_u64().unwrap_or(0))).await;
                        let i = o["node"].as_u64().unwrap_or(1) as usize;
                        if i == 0 || i > n || dead.lock().unwrap().contains_key(&i) {
                            continue;
                        }
                        if o["op"] == "connect" {
                            // application-level dial by address (two of them crossing yield two
                            // overlapping connections; Kademlia's own dials are by peer id)
                            if let Some(Some(tx)) = app_tx.get(i) {
                                let _ = tx.send(full_addr(seed, (o["to"].as_u64().unwrap_or(1) as usize).clamp(1, n)));
                            }
                            continue;
                        }
                        let Some(tx) = &drv[i] else { continue };
                        let mut key = o["key"].as_str().unwrap_or("k1").to_string();
                        if let Some(l) = o["key_len"].as_u64() {
                            while key.len() < l as usize {
                                key.push('K');
                            }
                        }
                        let mut value = format!("v-{}-{}", i, o["c"].as_u64().unwrap_or(0)).into_bytes();
                        if let Some(l) = o["value_len"].as_u64() {
                            value.resize((l as usize).max(value.len()), b'.');
                        }
                        let cmd = match o["op"].as_str().unwrap_or("") {
                            "find_node" => Cmd::FindNode { target: (o["target"].as_u64().unwrap_or(1) as usize).clamp(1, total) },
                            "put" => Cmd::Put { key, value, quorum: o["quorum"].clone() },
                            "put_to" => Cmd::PutTo { key, value, peers: o["peers"].as_array().map(|a| a.iter().filter_map(|x| x.as_u64()).map(|x| (x as usize).clamp(1, total)).filter(|p| *p != i).collect()).unwrap_or_default(), quorum: o["quorum"].clone(), update_local: o["update_local"].as_bool().unwrap_or(false) },
                            "get" => Cmd::Get { key, quorum: o["quorum"].clone() },
                            "provide" => Cmd::Provide { key, quorum: o["quorum"].clone() },
                            "get_providers" => Cmd::GetProviders { key },
                            _ => continue,
                        };
                        let _ = tx.send(cmd);
                    }
                    futures::future::pending::<()>().await;
                });
            }
            let h = handle.clone();
            Box::new(move || {
                let log = log.lock().unwrap().clone();
                let dead = dead.lock().unwrap().clone();
                if let Some((c, d)) = check(&log, &dead, n, killing, &h) {
                    h.violation(c, d);
                }
            })
        })
    }
}

fn check(log: &[Rec], dead: &BTreeMap<usize, bool>, n: usize, killing: bool, h: &Handle) -> Option<(String, String)> {
    let ts = |t: u64| format!("{:.3}s", t as f64 / 1e9);
    for i in 1..=n {
        let killed_at = log.iter().find(|r| r.node == i && matches!(r.k, K::Killed)).map(|r| r.t);
        let evs: Vec<&Rec> = log.iter().filter(|r| r.node == i && killed_at.map_or(true, |k| r.t <= k)).collect();
        let alive = !dead.contains_key(&i);
        // issued queries
        let mut issued: BTreeMap<String, (&Rec, u32)> = BTreeMap::new();
        for r in evs.iter() {
            match &r.k {
                K::Issued { qid, .. } => {
                    if issued.insert(qid.clone(), (r, 0)).is_some() {
                        return Some(("c16:query-id-reused".into(), format!("node {i}: query id {qid} issued twice")));
                    }
                }
                K::Terminal { qid, kind, detail } => {
                    let Some(q) = issued.get_mut(qid) else {
                        // the command is queued before the id is logged, so an event can only
                        // precede its `Issued` record if it is processed in the same poll: check later
                        let later = evs.iter().any(|x| matches!(&x.k, K::Issued { qid: q2, .. } if q2 == qid));
                        if !later {
                            return Some(("c16:unknown-query-id".into(), format!("node {i}: terminal event {kind} for {qid} which was never issued")));
                        }
                        continue;
                    };
                    q.1 += 1;
                    if q.1 > 1 {
                        return Some(("c16:multiple-terminals".into(), format!("node {i}: {} terminal events for {qid} (last: {kind} {detail} at {})", q.1, ts(r.t))));
                    }
                    if let K::Issued { kind: ik, .. } = &q.0.k {
                        let ok = match (*ik, *kind) {
                            (_, "failed") => true,
                            ("find_node", "find_node") | ("get_record", "get_record") | ("get_providers", "get_providers") | ("start_providing", "start_providing") => true,
                            ("put_record", "put") | ("put_record_to_peers", "put") => true,
                            _ => false,
                        };
                        if !ok {
                            return Some(("c16:wrong-terminal-kind".into(), format!("node {i}: {ik} query {qid} ended with a {kind} event")));
                        }
                        h.probe(&format!("terminal:{ik}:{}", if *kind == "failed" { "failed" } else { "success" }));
                    }
                }
                K::Partial { qid } => {
                    if let Some(q) = issued.get(qid) {
                        if q.1 > 0 {
                            return Some(("c16:partial-after-terminal".into(), format!("node {i}: GetRecordPartialResult for {qid} after its terminal event")));
                        }
                        if !matches!(&q.0.k, K::Issued { kind: "get_record", .. }) {
                            return Some(("c16:partial-for-non-get".into(), format!("node {i}: GetRecordPartialResult for {qid} which is not a get_record query")));
                        }
                    }
                }
                _ => {}
            }
        }
        if !alive {
            continue;
        }
        for (qid, (r, terminals)) in issued.iter() {
            let K::Issued { kind, key, value, quorum, peers, .. } = &r.k else { continue };
            let kd = if key.len() > 40 { format!("{}..[{} bytes]", &key[..8], key.len()) } else { key.clone() };
            if *terminals == 0 {
                let feature = if peers.iter().any(|p| *p > n) { ":ghost-target" } else { "" };
                return Some((format!("c16:no-terminal:{kind}{feature}"), format!("node {i}: {kind}({kd}) {qid} issued at {} has no terminal event at the horizon", ts(r.t))));
            }
            // success must mean the data was actually sent to enough peers
            if killing {
                continue;
            }
            let success = evs.iter().any(|x| matches!(&x.k, K::Terminal { qid: q2, detail, .. } if q2 == qid && detail == "success"));
            if !success {
                continue;
            }
            match *kind {
                "put_record" | "put_record_to_peers" => {
                    let mut receivers: Vec<usize> = (1..=n).filter(|j| *j != i && log.iter().any(|x| x.node == *j && matches!(&x.k, K::IncomingRecord { key: k2, value: v2 } if k2 == key && v2 == value))).collect();
                    // the rogue speaker was sent the record if it read a request at least as long as
                    // the value from this node after the operation was issued
                    if log.iter().any(|x| x.node == n + 1 && x.t >= r.t && matches!(&x.k, K::RogueGot { from, len } if *from == i && *len >= value.len())) {
                        receivers.push(n + 1);
                    }
                    let required = if *kind == "put_record_to_peers" {
                        let len = peers.len();
                        match quorum.trim_matches('"') {
                            "one" => 1,
                            "all" => len.max(1),
                            q => q.parse::<usize>().unwrap_or(1).min(len.max(1)),
                        }
                    } else {
                        1
                    };
                    if receivers.len() < required {
                        return Some((format!("c16:put-success-without-quorum:{kind}"), format!("node {i}: {kind}({kd}) {qid} quorum {quorum} reported PutRecordSuccess but only {} node(s) {:?} ever received the record (required: {required}; given peers {:?})", receivers.len(), receivers, peers)));
                    }
                    h.probe("put-success-verified");
                }
                "start_providing" => {
                    let mut receivers: Vec<usize> = (1..=n).filter(|j| *j != i && log.iter().any(|x| x.node == *j && matches!(&x.k, K::IncomingProvider { key: k2, provider } if k2 == key && *provider == i))).collect();
                    if log.iter().any(|x| x.node == n + 1 && x.t >= r.t && matches!(&x.k, K::RogueGot { from, .. } if *from == i)) {
                        receivers.push(n + 1);
                    }
                    if receivers.is_empty() {
                        return Some(("c16:provide-success-without-quorum".into(), format!("node {i}: start_providing({kd}) {qid} quorum {quorum} reported AddProviderSuccess but no node ever received the provider record")));
                    }
                    h.probe("provide-success-verified");
                }
                _ => {}
            }
        }
    }
    None
}
