//! C17 — the DHT record and provider store respects its bounds and freshness rules.
//!
//! The real `MemoryStore` runs on the simulated clock (its expiry uses `std::time::Instant`, its
//! refresh timers tokio sleeps). A history of put / get / put_provider / get_providers /
//! put_local_provider / remove_local_provider / advance(dt) is executed in lock-step with a small
//! reference store (maps and sorted vectors).
use crate::node::peer_id;
use crate::rng::Rng;
use crate::runner::{Budget, Describe, Prop, Tier};
use crate::sim::{run_sim, Handle, RunOutput, SchedKind};
use litep2p::protocol::libp2p::kademlia::{
    verif::{MemoryStore, MemoryStoreConfig},
    ContentProvider, Quorum, Record, RecordKey,
};
use multiaddr::Multiaddr;
use serde_json::{json, Value};
use sha2::{Digest, Sha256};
use std::{
    collections::BTreeMap,
    time::{Duration, Instant},
};

pub struct C17;

pub fn xor_distance(a: &[u8], b: &[u8]) -> [u8; 32] {
    let ha = Sha256::digest(a);
    let hb = Sha256::digest(b);
    let mut d = [0u8; 32];
    for i in 0..32 {
        d[i] = ha[i] ^ hb[i];
    }
    d
}

#[derive(Clone, Debug)]
struct MRecord {
    value: Vec<u8>,
    expires: Option<Instant>,
}

#[derive(Clone, Debug)]
struct MProvider {
    peer: usize,
    addrs: usize,
    expires: Instant,
    dist: [u8; 32],
}

struct Model {
    max_records: usize,
    max_size: usize,
    max_keys: usize,
    max_addrs: usize,
    max_per_key: usize,
    provider_ttl: Duration,
    records: BTreeMap<String, MRecord>,
    providers: BTreeMap<String, Vec<MProvider>>,
    local: BTreeMap<String, ()>,
}

impl Model {
    fn put(&mut self, key: &str, value: Vec<u8>, expires: Option<Instant>) {
        if value.len() >= self.max_size {
            return;
        }
        let len = self.records.len();
        match self.records.get(key) {
            Some(old) => {
                if let (Some(a), Some(b)) = (old.expires, expires) {
                    if a > b {
                        return;
                    }
                }
                self.records.insert(key.to_string(), MRecord { value, expires });
            }
            None => {
                if len >= self.max_records {
                    return;
                }
                self.records.insert(key.to_string(), MRecord { value, expires });
            }
        }
    }
    fn get(&mut self, key: &str, now: Instant) -> Option<MRecord> {
        if self.records.get(key).is_some_and(|r| r.expires.is_some_and(|t| now >= t)) {
            self.records.remove(key);
        }
        self.records.get(key).cloned()
    }
    fn put_provider(&mut self, key: &str, peer: usize, peer_bytes: &[u8], addrs: usize, now: Instant) -> bool {
        let rec = MProvider { peer, addrs: addrs.min(self.max_addrs), expires: now + self.provider_ttl, dist: xor_distance(peer_bytes, key.as_bytes()) };
        let can_new = self.providers.len() < self.max_keys;
        match self.providers.get_mut(key) {
            None => {
                if can_new {
                    self.providers.insert(key.to_string(), vec![rec]);
                    true
                } else {
                    false
                }
            }
            Some(list) => match list.binary_search_by(|p| p.dist.cmp(&rec.dist)) {
                Ok(i) => {
                    list[i] = rec;
                    true
                }
                Err(i) => {
                    if i == self.max_per_key {
                        false
                    } else {
                        if list.len() == self.max_per_key {
                            list.pop();
                        }
                        list.insert(i, rec);
                        true
                    }
                }
            },
        }
    }
    fn get_providers(&mut self, key: &str, now: Instant) -> Vec<MProvider> {
        let drop = self.providers.get_mut(key).is_some_and(|l| {
            l.retain(|p| now < p.expires);
            l.is_empty()
        });
        if drop {
            self.providers.remove(key);
            return vec![];
        }
        self.providers.get(key).cloned().unwrap_or_default()
    }
    fn remove_local(&mut self, key: &str, local_bytes: &[u8]) {
        if self.local.remove(key).is_none() {
            return;
        }
        if let Some(list) = self.providers.get_mut(key) {
            let d = xor_distance(local_bytes, key.as_bytes());
            if let Ok(i) = list.binary_search_by(|p| p.dist.cmp(&d)) {
                list.remove(i);
            }
            if list.is_empty() {
                self.providers.remove(key);
            }
        }
    }
}

impl Prop for C17 {
    fn id(&self) -> &'static str {
        "C17"
    }

    fn budget(&self, tier: Tier) -> Budget {
        match tier {
            Tier::Quick => Budget { runs: 40_000, wall_s: 60.0 },
            Tier::Thorough => Budget { runs: 2_000_000, wall_s: 540.0 },
        }
    }

    fn describe(&self) -> Describe {
        Describe {
            level: "exploration",
            rule: "each case = one seeded history of store operations on the simulated clock: put (colliding keys, sizes around the limit, expiring / non-expiring / earlier / later expiry), get, put_provider (more providers than the per-key bound, re-announcements, more keys than the key bound, more addresses than the address bound), get_providers, put_local_provider, remove_local_provider and advance(dt) across expiry instants, under a drawn configuration incl. bounds 0 and 1; non-trivial = the history contains an advance across at least one expiry or a put beyond a bound (measured by probes), else any history of >= 2 operations; distinct = distinct trace hash".into(),
            real: vec!["kademlia MemoryStore (records, providers, local providers, refresh timers)", "Record / ProviderRecord expiry", "XOR distance of providers to keys"],
            stub: vec!["clock (std Instant + tokio timers on the simulated clock)", "the Kademlia event loop is not involved: operations are applied directly, as Kademlia does from its single task"],
            assumptions: vec!["the store is only ever used from Kademlia's own task, so there is no interleaving inside the store to explore; the schedule dimension is the position of clock advances between operations", "reference model: maps and sorted vectors mirroring the documented rules; reads are compared exactly"],
        }
    }

    fn nontrivial(&self, out: &RunOutput) -> bool {
        out.probes.values().sum::<u64>() >= 2
    }

    fn gen(&self, seed: u64, tier: Tier) -> Value {
        let mut rng = Rng::fork(seed, "c17-gen");
        let n = match tier {
            Tier::Quick => rng.range(2, 60),
            Tier::Thorough => rng.range(2, 300),
        };
        let keys = ["ka", "kb", "kc", "kd", "ke", "kf"];
        let mut ops = Vec::new();
        for _ in 0..n {
            let key = *rng.pick(&keys);
            let op = match rng.below(12) {
                0 | 1 | 2 => json!({"op": "put", "key": key, "size": *rng.pick(&[0u64, 1, 7, 8, 9, 63, 64, 65]), "ttl_ms": match rng.below(4) { 0 => Value::Null, _ => json!(*rng.pick(&[0u64, 1, 500, 2000, 2001, 10_000])) }}),
                3 | 4 => json!({"op": "get", "key": key}),
                5 | 6 | 7 => json!({"op": "put_provider", "key": key, "peer": rng.range(2, 12), "addrs": rng.below(6)}),
                8 => json!({"op": "get_providers", "key": key}),
                9 => {
                    if rng.chance(2, 3) {
                        json!({"op": "put_local", "key": key})
                    } else {
                        json!({"op": "remove_local", "key": key})
                    }
                }
                _ => json!({"op": "advance", "ms": *rng.pick(&[1u64, 499, 500, 501, 999, 1000, 1001, 2000, 5000, 10_001])}),
            };
            ops.push(op);
        }
        json!({
            "property": "C17",
            "seed": seed,
            "sched": {"kind": "fifo"},
            "config": {
                "max_records": *rng.pick(&[0u64, 1, 2, 5]),
                "max_size": *rng.pick(&[0u64, 1, 8, 64, 65]),
                "max_keys": *rng.pick(&[0u64, 1, 3, 6]),
                "max_addrs": *rng.pick(&[0u64, 1, 3]),
                "max_per_key": *rng.pick(&[1u64, 2, 3, 20]),
                "provider_ttl_ms": *rng.pick(&[1000u64, 10_000]),
                "refresh_ms": *rng.pick(&[500u64, 5000]),
            },
            "ops": ops,
        })
    }

    fn run(&self, case: &Value, verbose: bool) -> RunOutput {
        let case = case.clone();
        let seed = case["seed"].as_u64().unwrap_or(0);
        run_sim(seed, SchedKind::Fifo, Duration::from_secs(1_000_000), 5_000_000, verbose, move |handle: Handle| {
            let h = handle.clone();
            handle.spawn(1, "store-driver", async move {
                let c = &case["config"];
                let g = |k: &str, d: u64| c[k].as_u64().unwrap_or(d);
                let cfg = MemoryStoreConfig {
                    max_records: g("max_records", 5) as usize,
                    max_record_size_bytes: g("max_size", 64) as usize,
                    max_provider_keys: g("max_keys", 3) as usize,
                    max_provider_addresses: g("max_addrs", 3) as usize,
                    max_providers_per_key: g("max_per_key", 3).max(1) as usize,
                    provider_refresh_interval: Duration::from_millis(g("refresh_ms", 5000)),
                    provider_ttl: Duration::from_millis(g("provider_ttl_ms", 10_000)),
                };
                let mut model = Model {
                    max_records: cfg.max_records,
                    max_size: cfg.max_record_size_bytes,
                    max_keys: cfg.max_provider_keys,
                    max_addrs: cfg.max_provider_addresses,
                    max_per_key: cfg.max_providers_per_key,
                    provider_ttl: cfg.provider_ttl,
                    records: BTreeMap::new(),
                    providers: BTreeMap::new(),
                    local: BTreeMap::new(),
                };
                let local = peer_id(seed, 1);
                let mut store = MemoryStore::with_config(local, cfg);
                let addr = |k: usize| -> Multiaddr { format!("/ip4/10.1.0.{}/tcp/{}", k % 250, 1000 + k).parse().unwrap() };
                let ops: Vec<Value> = case["ops"].as_array().cloned().unwrap_or_default();
                for (step, op) in ops.iter().enumerate() {
                    let key = op["key"].as_str().unwrap_or("ka").to_string();
                    let rk = RecordKey::new(&key.clone().into_bytes());
                    let now = Instant::now();
                    match op["op"].as_str().unwrap_or("") {
                        "put" => {
                            let size = op["size"].as_u64().unwrap_or(0) as usize;
                            let value: Vec<u8> = (0..size).map(|j| (step as u8).wrapping_add(j as u8)).collect();
                            let expires = op["ttl_ms"].as_u64().map(|t| now + Duration::from_millis(t));
                            let mut r = Record::new(rk.clone(), value.clone());
                            r.expires = expires;
                            store.put(r);
                            model.put(&key, value, expires);
                            if size >= model.max_size {
                                h.probe("put-over-size");
                            }
                        }
                        "get" => {
                            let real = store.get(&rk).cloned();
                            let m = model.get(&key, now);
                            match (&real, &m) {
                                (Some(r), _) if r.expires.is_some_and(|t| now >= t) => {
                                    h.violation("c17:expired-record-returned", format!("step {step}: get({key}) returned a record that expired {:?} ago", now - r.expires.unwrap()));
                                    return;
                                }
                                (Some(r), _) if r.value.len() > model.max_size => {
                                    h.violation("c17:oversize-record-held", format!("step {step}: get({key}) returned {} bytes, configured maximum {}", r.value.len(), model.max_size));
                                    return;
                                }
                                (Some(r), Some(m)) if r.value == m.value && r.expires == m.expires => h.probe("get-hit"),
                                (None, None) => {}
                                (r, m) => {
                                    h.violation("c17:record-differs-from-model", format!("step {step}: get({key}) returned {:?}, the reference store holds {:?}", r.as_ref().map(|r| (r.value.len(), r.expires.map(|t| t.saturating_duration_since(now)))), m.as_ref().map(|m| (m.value.len(), m.expires.map(|t| t.saturating_duration_since(now))))));
                                    return;
                                }
                            }
                        }
                        "put_provider" => {
                            let p = op["peer"].as_u64().unwrap_or(2) as usize;
                            let n = op["addrs"].as_u64().unwrap_or(0) as usize;
                            let pid = peer_id(seed, p);
                            let r = store.put_provider(rk.clone(), ContentProvider { peer: pid, addresses: (0..n).map(|k| addr(k + p)).collect() });
                            let m = model.put_provider(&key, p, &pid.to_bytes(), n, now);
                            if r != m {
                                h.violation("c17:put-provider-result-differs", format!("step {step}: put_provider({key}, n{p}) returned {r}, the reference store says {m}"));
                                return;
                            }
                        }
                        "get_providers" => {
                            let real = store.get_providers(&rk);
                            let m = model.get_providers(&key, now);
                            if real.len() > model.max_per_key {
                                h.violation("c17:too-many-providers", format!("step {step}: get_providers({key}) returned {} providers, bound {}", real.len(), model.max_per_key));
                                return;
                            }
                            let mut last: Option<[u8; 32]> = None;
                            for p in real.iter() {
                                let d = xor_distance(&p.peer.to_bytes(), key.as_bytes());
                                if last.is_some_and(|l| l >= d) {
                                    h.violation("c17:providers-not-sorted", format!("step {step}: get_providers({key}) is not strictly sorted by distance to the key (duplicate or misplaced provider)"));
                                    return;
                                }
                                last = Some(d);
                                if p.addresses.len() > model.max_addrs {
                                    h.violation("c17:too-many-addresses", format!("step {step}: provider with {} addresses, bound {}", p.addresses.len(), model.max_addrs));
                                    return;
                                }
                            }
                            let real_ids: Vec<(litep2p::PeerId, usize)> = real.iter().map(|p| (p.peer, p.addresses.len())).collect();
                            let model_ids: Vec<(litep2p::PeerId, usize)> = m.iter().map(|p| (if p.peer == 1 { local } else { peer_id(seed, p.peer) }, p.addrs)).collect();
                            if real_ids != model_ids {
                                h.violation("c17:providers-differ-from-model", format!("step {step}: get_providers({key}) returned {} providers, the reference store holds {} (expired, displaced or duplicated provider)", real_ids.len(), model_ids.len()));
                                return;
                            }
                            if !real.is_empty() {
                                h.probe("providers-hit");
                            }
                        }
                        "put_local" => {
                            let r = store.put_local_provider(rk.clone(), Quorum::One);
                            let m = model.put_provider(&key, 1, &local.to_bytes(), 0, now);
                            if m {
                                model.local.insert(key.clone(), ());
                            }
                            if r != m {
                                h.violation("c17:put-provider-result-differs", format!("step {step}: put_local_provider({key}) returned {r}, the reference store says {m}"));
                                return;
                            }
                        }
                        "remove_local" => {
                            store.remove_local_provider(rk.clone());
                            model.remove_local(&key, &local.to_bytes());
                        }
                        "advance" => {
                            let ms = op["ms"].as_u64().unwrap_or(1);
                            // the refresh stream is polled while time passes, as Kademlia does
                            let deadline = tokio::time::Instant::now() + Duration::from_millis(ms);
                            loop {
                                tokio::select! {
                                    _ = tokio::time::sleep_until(deadline) => break,
                                    a = store.next_action() => { if a.is_some() { h.probe("refresh-action"); } }
                                }
                            }
                            h.probe("advance");
                        }
                        _ => {}
                    }
                }
                // final sweep: every key read back
                let now = Instant::now();
                let mut held = 0;
                for key in ["ka", "kb", "kc", "kd", "ke", "kf"] {
                    let rk = RecordKey::new(&key.to_string().into_bytes());
                    let real = store.get(&rk).cloned();
                    let m = model.get(key, now);
                    if real.is_some() {
                        held += 1;
                    }
                    if real.as_ref().map(|r| (&r.value, r.expires)) != m.as_ref().map(|m| (&m.value, m.expires)) {
                        h.violation("c17:record-differs-from-model", format!("final sweep: get({key}) returned {:?}, the reference store holds {:?}", real.as_ref().map(|r| r.value.len()), m.as_ref().map(|m| m.value.len())));
                        return;
                    }
                    let rp: Vec<litep2p::PeerId> = store.get_providers(&rk).into_iter().map(|p| p.peer).collect();
                    let mp: Vec<litep2p::PeerId> = model.get_providers(key, now).iter().map(|p| if p.peer == 1 { local } else { peer_id(seed, p.peer) }).collect();
                    if rp != mp {
                        h.violation("c17:providers-differ-from-model", format!("final sweep: get_providers({key}) returned {} providers, the reference store holds {}", rp.len(), mp.len()));
                        return;
                    }
                }
                if held > model.max_records {
                    h.violation("c17:too-many-records", format!("final sweep: {held} records readable, bound {}", model.max_records));
                    return;
                }
                h.stop();
            });
            Box::new(|| {})
        })
    }
}
