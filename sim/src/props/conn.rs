//! Connection-level whole-node scenario serving C05 (dial outcomes), C06 (connection caps),
//! C07 (closed exactly once / redial / isolation) and C08 (per-protocol event stream).
//!
//! 2-4 complete litep2p nodes with two probe user protocols each; the application dials by peer id
//! and by address (well-formed and adversarial shapes), probes open substreams, force-close and
//! exit; SimNet injects faults. Everything observable is appended to one totally ordered log which
//! the oracles examine at the horizon. A final phase (after all faults have stopped and every
//! time-out the code owns has had time to fire) re-dials every disconnected pair.
use crate::node::{self, base_config, full_addr, gen_node_knobs, has_ws, listen_addr, node_ip, peer_id, short, with_p2p, ws_full_addr};
use crate::nodesim;
use crate::rng::Rng;
use crate::runner::{Budget, Describe, Prop, Tier};
use crate::sim::{run_sim, vnow, Handle, RunOutput, SchedKind};
use crate::simnet::{NetKnobs, SimNet};
use futures::StreamExt;
use litep2p::{
    codec::ProtocolCodec,
    protocol::{Direction, TransportEvent, TransportService, UserProtocol},
    substream::Substream,
    Litep2p, Litep2pEvent, PeerId, ProtocolName,
};
use multiaddr::Multiaddr;
use serde_json::{json, Value};
use std::{
    collections::{BTreeMap, BTreeSet},
    sync::{Arc, Mutex},
    time::Duration,
};
use tokio::sync::mpsc::{unbounded_channel, UnboundedReceiver, UnboundedSender};

pub struct ConnProp {
    pub id: &'static str,
}

#[derive(Clone, Debug)]
pub(crate) enum K {
    AppEstablished { peer: usize, listener: bool, addr: String },
    AppClosed { peer: usize },
    AppDialFailure { addr: String },
    AppListDialFailures { addrs: Vec<String> },
    AppEnded,
    DialCall { peer: Option<usize>, addr: Option<String>, ok: bool, err: String, fin: bool },
    PEstablished { proto: usize, peer: usize },
    PClosed { proto: usize, peer: usize },
    PSubOpened { proto: usize, peer: usize, out_id: Option<String> },
    PSubFailure { proto: usize, id: String },
    PDialFailure { proto: usize, peer: usize },
    PDialCall { proto: usize, peer: usize, ok: bool, err: String },
    POpenCall { proto: usize, peer: usize, id: Option<String>, err: String },
    PForceClose { proto: usize, peer: usize, ok: bool },
    PExit { proto: usize },
    /// a substream held by the probe was released
    PReleased { proto: usize, peer: usize },
    Killed,
}

#[derive(Clone, Debug)]
pub(crate) struct Rec {
    pub t: u64,
    pub node: usize,
    pub k: K,
}

pub(crate) type Log = Arc<Mutex<Vec<Rec>>>;

pub(crate) fn push(log: &Log, h: &Handle, node: usize, k: K) {
    let t = vnow().as_nanos() as u64;
    h.event(format!("n{node} {k:?}"));
    log.lock().unwrap().push(Rec { t, node, k });
}

#[derive(Debug)]
pub(crate) enum NodeCmd {
    Dial { peer: usize, fin: bool },
    DialAddr { addr: Multiaddr, peer: Option<usize> },
    AddAddr { peer: usize, addr: Multiaddr },
}

#[derive(Debug)]
pub(crate) enum ProbeCmd {
    Open { peer: usize, hold_ms: u64 },
    ForceClose { peer: usize },
    Dial { peer: usize },
    Exit { unregister: bool },
}

pub(crate) struct Probe {
    pub node: usize,
    pub idx: usize,
    pub name: ProtocolName,
    pub seed: u64,
    pub nodes_total: usize,
    pub log: Log,
    pub handle: Handle,
    pub rx: UnboundedReceiver<ProbeCmd>,
    /// how long inbound substreams are held before being dropped
    pub inbound_hold_ms: u64,
    /// write half of a received substream is shut down at once and the object kept for reading
    /// until the hold expires (request/response idiom): 0 never, 1 always, 2 every other one
    pub half_close: u64,
}

pub(crate) fn peer_index(seed: u64, total: usize, p: &PeerId) -> usize {
    for i in 1..=total {
        if &peer_id(seed, i) == p {
            return i;
        }
    }
    0
}

#[async_trait::async_trait]
impl UserProtocol for Probe {
    fn protocol(&self) -> ProtocolName {
        self.name.clone()
    }
    fn codec(&self) -> ProtocolCodec {
        ProtocolCodec::UnsignedVarint(None)
    }
    async fn run(mut self: Box<Self>, mut service: TransportService) -> litep2p::Result<()> {
        let (node, idx) = (self.node, self.idx);
        // substreams held open: (drop at, substream)
        let mut held: Vec<(tokio::time::Instant, usize, Substream)> = Vec::new();
        let mut hold_for: BTreeMap<String, u64> = BTreeMap::new();
        let mut opened_count = 0u64;
        let mut cmds_open = true;
        loop {
            let next_drop = held.iter().map(|h| h.0).min();
            tokio::select! {
                biased;
                cmd = self.rx.recv(), if cmds_open => match cmd {
                    None => cmds_open = false,
                    Some(ProbeCmd::Open { peer, hold_ms }) => {
                        let r = service.open_substream(peer_id(self.seed, peer));
                        match r {
                            Ok(id) => {
                                hold_for.insert(format!("{id:?}"), hold_ms);
                                push(&self.log, &self.handle, node, K::POpenCall { proto: idx, peer, id: Some(format!("{id:?}")), err: String::new() });
                            }
                            Err(e) => push(&self.log, &self.handle, node, K::POpenCall { proto: idx, peer, id: None, err: format!("{e:?}") }),
                        }
                    }
                    Some(ProbeCmd::Dial { peer }) => {
                        let r = service.dial(&peer_id(self.seed, peer));
                        push(&self.log, &self.handle, node, K::PDialCall { proto: idx, peer, ok: r.is_ok(), err: r.err().map(|e| format!("{e:?}")).unwrap_or_default() });
                    }
                    Some(ProbeCmd::ForceClose { peer }) => {
                        let r = service.force_close(peer_id(self.seed, peer));
                        push(&self.log, &self.handle, node, K::PForceClose { proto: idx, peer, ok: r.is_ok() });
                    }
                    Some(ProbeCmd::Exit { unregister }) => {
                        if unregister {
                            service.unregister_protocol();
                        }
                        push(&self.log, &self.handle, node, K::PExit { proto: idx });
                        return Ok(());
                    }
                },
                _ = async { tokio::time::sleep_until(next_drop.unwrap()).await }, if next_drop.is_some() => {
                    let now = tokio::time::Instant::now();
                    let mut k = 0;
                    while k < held.len() {
                        if held[k].0 <= now {
                            let (_, peer, sub) = held.remove(k);
                            drop(sub);
                            push(&self.log, &self.handle, node, K::PReleased { proto: idx, peer });
                        } else {
                            k += 1;
                        }
                    }
                }
                ev = service.next() => match ev {
                    None => {
                        push(&self.log, &self.handle, node, K::PExit { proto: idx });
                        return Ok(());
                    }
                    Some(TransportEvent::ConnectionEstablished { peer, .. }) => {
                        let p = peer_index(self.seed, self.nodes_total, &peer);
                        push(&self.log, &self.handle, node, K::PEstablished { proto: idx, peer: p });
                    }
                    Some(TransportEvent::ConnectionClosed { peer }) => {
                        let p = peer_index(self.seed, self.nodes_total, &peer);
                        push(&self.log, &self.handle, node, K::PClosed { proto: idx, peer: p });
                    }
                    Some(TransportEvent::SubstreamOpened { peer, direction, substream, .. }) => {
                        let p = peer_index(self.seed, self.nodes_total, &peer);
                        let out_id = match direction { Direction::Inbound => None, Direction::Outbound(id) => Some(format!("{id:?}")) };
                        let hold = out_id.as_ref().and_then(|i| hold_for.remove(i)).unwrap_or(self.inbound_hold_ms);
                        push(&self.log, &self.handle, node, K::PSubOpened { proto: idx, peer: p, out_id });
                        let mut substream = substream;
                        opened_count += 1;
                        if self.half_close == 1 || (self.half_close == 2 && opened_count % 2 == 0) {
                            // the substream object lives on (and keeps its permit) after the shutdown
                            let r = tokio::time::timeout(Duration::from_millis(200), futures::SinkExt::close(&mut substream)).await;
                            self.handle.probe("probe-half-closed");
                            self.handle.event(format!("n{node} proto {idx}: half-closed substream to n{p}: {}", match r { Ok(Ok(())) => "ok".to_string(), Ok(Err(e)) => format!("{e:?}"), Err(_) => "timeout".to_string() }));
                        }
                        held.push((tokio::time::Instant::now() + Duration::from_millis(hold), p, substream));
                    }
                    Some(TransportEvent::SubstreamOpenFailure { substream, .. }) => {
                        push(&self.log, &self.handle, node, K::PSubFailure { proto: idx, id: format!("{substream:?}") });
                    }
                    Some(TransportEvent::DialFailure { peer, .. }) => {
                        let p = peer_index(self.seed, self.nodes_total, &peer);
                        push(&self.log, &self.handle, node, K::PDialFailure { proto: idx, peer: p });
                    }
                },
            }
        }
    }
}

pub(crate) fn spawn_app_loop(handle: &Handle, log: Log, seed: u64, total: usize, i: usize, mut l: Litep2p) -> UnboundedSender<NodeCmd> {
    let (tx, mut rx): (UnboundedSender<NodeCmd>, UnboundedReceiver<NodeCmd>) = unbounded_channel();
    let h = handle.clone();
    handle.spawn(i, "litep2p-event-loop", async move {
        let mut open = true;
        loop {
            tokio::select! {
                biased;
                cmd = rx.recv(), if open => match cmd {
                    None => open = false,
                    Some(NodeCmd::Dial { peer, fin }) => {
                        let r = l.dial(&peer_id(seed, peer)).await;
                        push(&log, &h, i, K::DialCall { peer: Some(peer), addr: None, ok: r.is_ok(), err: r.err().map(|e| format!("{e:?}")).unwrap_or_default(), fin });
                    }
                    Some(NodeCmd::DialAddr { addr, peer }) => {
                        let r = l.dial_address(addr.clone()).await;
                        push(&log, &h, i, K::DialCall { peer, addr: Some(addr.to_string()), ok: r.is_ok(), err: r.err().map(|e| format!("{e:?}")).unwrap_or_default(), fin: false });
                    }
                    Some(NodeCmd::AddAddr { peer, addr }) => {
                        let n = l.add_known_address(peer_id(seed, peer), std::iter::once(addr.clone()));
                        h.event(format!("n{i} add_known_address(n{peer}, {addr}) -> {n}"));
                    }
                },
                ev = l.next_event() => {
                    let k = match ev {
                        Some(Litep2pEvent::ConnectionEstablished { peer, endpoint }) => K::AppEstablished { peer: peer_index(seed, total, &peer), listener: endpoint.is_listener(), addr: endpoint.address().to_string() },
                        Some(Litep2pEvent::ConnectionClosed { peer, .. }) => K::AppClosed { peer: peer_index(seed, total, &peer) },
                        Some(Litep2pEvent::DialFailure { address, .. }) => K::AppDialFailure { addr: address.to_string() },
                        Some(Litep2pEvent::ListDialFailures { errors }) => K::AppListDialFailures { addrs: errors.into_iter().map(|(a, _)| a.to_string()).collect() },
                        None => K::AppEnded,
                    };
                    let ended = matches!(k, K::AppEnded);
                    push(&log, &h, i, k);
                    if ended { break; }
                }
            }
        }
    });
    tx
}

/// Adversarial / malformed address shapes for `dial_address`.
fn weird_addr(seed: u64, shape: &str, j: usize, g: usize) -> (Multiaddr, Option<usize>) {
    let pj = peer_id(seed, j);
    let pg = peer_id(seed, g);
    let base = listen_addr(j);
    match shape {
        // address of j, peer id of g: Noise proves j, dial must fail (peer id mismatch)
        "wrong_peer" => (with_p2p(base, pg), Some(g)),
        "no_p2p" => (base, None),
        "double_p2p" => (with_p2p(with_p2p(base, pj), pg), Some(g)),
        "double_p2p_same" => (with_p2p(with_p2p(base, pj), pj), Some(j)),
        "udp_quic" => (with_p2p(format!("/ip4/10.0.0.{j}/udp/{}/quic-v1", node::port(j)).parse().unwrap(), pj), Some(j)),
        "ws" => (with_p2p(format!("/ip4/10.0.0.{j}/tcp/{}/ws", node::port(j)).parse().unwrap(), pj), Some(j)),
        "p2p_only" => (with_p2p(Multiaddr::empty(), pj), Some(j)),
        "tcp_only" => (with_p2p("/tcp/30001".parse().unwrap(), pj), Some(j)),
        "ip6" => (with_p2p(format!("/ip6/::1/tcp/{}", node::port(j)).parse().unwrap(), pj), Some(j)),
        "unspecified" => (with_p2p(format!("/ip4/0.0.0.0/tcp/{}", node::port(j)).parse().unwrap(), pj), Some(j)),
        "trailing" => (with_p2p(base, pj).with(multiaddr::Protocol::Tcp(1)), None),
        "dead_port" => (with_p2p(format!("/ip4/10.0.0.{j}/tcp/1").parse().unwrap(), pj), Some(j)),
        _ => (with_p2p(base, pj), Some(j)),
    }
}

const SHAPES: &[&str] = &["wrong_peer", "no_p2p", "double_p2p", "double_p2p_same", "udp_quic", "ws", "p2p_only", "tcp_only", "ip6", "unspecified", "trailing", "dead_port"];

impl ConnProp {
    fn gen_ops(&self, rng: &mut Rng, n: usize, tier: Tier) -> Vec<Value> {
        let mut ops = Vec::new();
        let span = *rng.pick(&[300u64, 3_000, 12_000]);
        let nops = match tier {
            Tier::Quick => rng.range(2, 16),
            Tier::Thorough => rng.range(2, 40),
        };
        let other = |rng: &mut Rng, i: u64| {
            let mut j = 1 + rng.below(n as u64);
            if j == i {
                j = 1 + (i % n as u64);
            }
            j
        };
        // emphasis differs per property
        let (w_dial, w_weird, w_open, w_exit, w_force) = match self.id {
            "C05" => (40, 25, 10, 3, 3),
            "C06" => (55, 5, 10, 2, 5),
            "C07" => (35, 3, 25, 12, 10),
            _ => (30, 2, 50, 5, 8),
        };
        let total = w_dial + w_weird + w_open + w_exit + w_force;
        for _ in 0..nops {
            let at = rng.below(span);
            let i = 1 + rng.below(n as u64);
            let r = rng.below(total);
            if r < w_dial {
                let j = match rng.below(10) {
                    0 => n as u64 + 1,
                    1 => n as u64 + 2,
                    _ => other(rng, i),
                };
                match rng.below(4) {
                    0 => ops.push(json!({"at_ms": at, "op": "dial_addr", "node": i, "to": j, "shape": "good"})),
                    1 if j <= n as u64 => {
                        // simultaneous mutual dial; single-address dials keep dialing while the
                        // inbound connection is accepted, which yields two overlapping connections
                        let op = if rng.chance(1, 2) { "dial" } else { "dial_addr" };
                        ops.push(json!({"at_ms": at, "op": op, "node": i, "to": j, "shape": "good"}));
                        ops.push(json!({"at_ms": at + rng.below(3), "op": op, "node": j, "to": i, "shape": "good"}));
                    }
                    _ => ops.push(json!({"at_ms": at, "op": "dial", "node": i, "to": j})),
                }
            } else if r < w_dial + w_weird {
                let j = other(rng, i);
                let g = if rng.chance(1, 2) { n as u64 + 3 } else { other(rng, j) };
                ops.push(json!({"at_ms": at, "op": "dial_addr", "node": i, "to": j, "ghost": g, "shape": *rng.pick(SHAPES)}));
            } else if r < w_dial + w_weird + w_open {
                if rng.chance(1, 5) {
                    // a protocol asks for the dial through its TransportService
                    let j = match rng.below(8) {
                        0 => n as u64 + 1,
                        1 => n as u64 + 2,
                        _ => other(rng, i),
                    };
                    ops.push(json!({"at_ms": at, "op": "pdial", "node": i, "proto": rng.below(2), "to": j}));
                    continue;
                }
                let j = other(rng, i);
                let burst = if rng.chance(1, 4) { rng.range(2, 6) } else { 1 };
                for b in 0..burst {
                    ops.push(json!({"at_ms": at + b, "op": "open", "node": i, "proto": rng.below(2), "to": j, "hold_ms": *rng.pick(&[0u64, 20, 700, 4000, 30_000])}));
                }
            } else if r < w_dial + w_weird + w_open + w_exit {
                ops.push(json!({"at_ms": at, "op": "probe_exit", "node": i, "proto": rng.below(2), "unregister": rng.chance(1, 2)}));
            } else {
                ops.push(json!({"at_ms": at, "op": "force_close", "node": i, "proto": rng.below(2), "to": other(rng, i)}));
            }
        }
        ops.sort_by_key(|o| o["at_ms"].as_u64().unwrap_or(0));
        ops
    }
}

impl Prop for ConnProp {
    fn id(&self) -> &'static str {
        self.id
    }

    fn budget(&self, tier: Tier) -> Budget {
        match tier {
            Tier::Quick => Budget { runs: 12_000, wall_s: 60.0 },
            Tier::Thorough => Budget { runs: 400_000, wall_s: 540.0 },
        }
    }

    fn describe(&self) -> Describe {
        Describe {
            level: "exploration",
            rule: "each case = one seeded run of 2-4 complete litep2p nodes, each with two probe user protocols, on SimNet: materialised application dials (by peer id, by well-formed and adversarial addresses, simultaneous mutual dials), substream opens, force-closes, protocol exits, fault plan (resets, half-closes, byte-offset cuts and single-bit corruption in flight, partitions, refused / black-holed / slow connects, node kill with reset or silent vanish, crash + restart with the same identity, process stalls), connection limits, scheduler kind and knobs, in a third of the runs a second transport (WebSocket) mixed with TCP (peers known by both addresses, dials by peer id open on both transports), in an eighth of the C07/C08 runs the two-connection loss pattern (mutual dial, stalled peer, opens in flight, the two connections reset one after the other), followed by a fault-free final phase that re-dials every disconnected pair; non-trivial = scheduler had >=1 choice point; distinct = distinct trace hash (scheduler decisions + every recorded event with virtual timestamp)".into(),
            real: vec!["Litep2p", "TransportManager + PeerState + AddressStore + ConnectionLimits", "TcpTransport/TcpConnection", "WebSocketTransport/WebSocketConnection + tokio-tungstenite (runs with the second transport)", "multistream-select", "Noise", "yamux", "ProtocolSet", "TransportService", "UserProtocol probes"],
            stub: vec!["socket layer (SimNet)", "clock", "task scheduler (seeded)", "HashMap seeds"],
            assumptions: vec![
                "pre-emption granularity is the task poll",
                "SimNet: reliable ordered streams, unique source ports (SO_REUSEPORT 4-tuple collisions not modelled)",
                "oracles are evaluated on the recorded history at the horizon; the final phase starts after every fault has stopped and all of the code's time-outs have elapsed",
                "the protocols-before-manager ordering clause of C07 is not observable through the public API and is not checked here",
            ],
        }
    }

    fn gen(&self, seed: u64, tier: Tier) -> Value {
        let mut rng = Rng::fork(seed, &format!("conn-gen-{}", self.id));
        if self.id == "C06" && rng.chance(1, 4) {
            return crate::props::c06x::gen_clone(seed, &mut rng);
        }
        let n = rng.range(2, 4) as usize;
        let ops = self.gen_ops(&mut rng, n, tier);
        let last = ops.iter().map(|o| o["at_ms"].as_u64().unwrap_or(0)).max().unwrap_or(0);
        let mut faults = Vec::new();
        if !rng.chance(2, 5) {
            faults = nodesim::gen_faults(&mut rng, n, last + 2000, 4, true);
            faults.extend(nodesim::gen_connect_faults(&mut rng, 2));
        }
        faults.extend(nodesim::gen_freeze_faults(seed, n, last + 2000));
        nodesim::add_restarts(seed, &mut faults);
        faults.extend(nodesim::gen_flip_faults(seed));
        let mut knobs = gen_node_knobs(&mut rng);
        let limit_p = if self.id == "C06" { 3 } else { 1 };
        if rng.chance(limit_p, 5) {
            knobs["max_out"] = json!(rng.range(1, 3));
        }
        if rng.chance(limit_p, 5) {
            knobs["max_in"] = json!(rng.range(1, 3));
        }
        // second transport (independent stream of the seed): in a third of the runs some nodes also
        // run the WebSocket transport on SimNet; peers are then known by a TCP and a WebSocket
        // address (dial by peer id opens on both transports at once) and some address dials use
        // the WebSocket address
        let mut wsr = Rng::fork(seed, "ws-knobs");
        let mut ops = ops;
        let mut ws_run = false;
        if wsr.chance(1, 3) {
            let mut wsn: Vec<u64> = (1..=n as u64).filter(|_| wsr.chance(2, 3)).collect();
            if wsn.is_empty() {
                wsn.push(1 + wsr.below(n as u64));
            }
            knobs["ws_nodes"] = json!(wsn);
            knobs["ws_known"] = json!(wsr.below(1 << 16));
            ws_run = true;
            for o in ops.iter_mut() {
                if o["op"] == "dial_addr" && o["shape"] == "good" && wsr.chance(1, 2) {
                    o["shape"] = json!("good_ws");
                }
            }
        }
        // which nodes lack probe b (unsupported-protocol substream failures)
        let lacking: Vec<u64> = (1..=n as u64).filter(|_| rng.chance(1, 5)).collect();
        let half_close = if rng.chance(1, 4) { *rng.pick(&[1u64, 2]) } else { 0 };
        let inbound_hold = *rng.pick(&[50u64, 50, 50, 2_000, 12_000]);
        let mut faults = faults;
        if self.id == "C08" && rng.chance(1, 8) {
            // a peer that stops answering (partition = stalled delivery) while one protocol opens
            // more substreams than the multiplexer lets be unacknowledged at once
            let (a, b) = (1u64, 2u64);
            let t0 = 1_200 + rng.below(800);
            ops.push(json!({"at_ms": 20, "op": "dial", "node": a, "to": b}));
            faults.push(json!({"at_ms": t0, "kind": "partition", "a": a, "b": b, "heal_after_ms": *rng.pick(&[20_000u64, 40_000])}));
            ops.push(json!({"at_ms": t0 + 50 + rng.below(200), "op": "open_burst", "node": a, "to": b, "proto": rng.below(2), "count": rng.range(200, 420)}));
            ops.sort_by_key(|o| o["at_ms"].as_u64().unwrap_or(0));
        }
        {
            // two overlapping connections to a peer that stops answering, opens in flight on them,
            // then the connections are lost one after the other (independent stream of the seed)
            let mut r = Rng::fork(seed, "conn-two-connections");
            if (self.id == "C08" || self.id == "C07") && r.chance(1, 8) {
                let (a, b) = (1u64, 2u64);
                let t1 = 1_200 + r.below(600);
                // the two connections must still be there when the peer stalls
                if knobs["keep_alive_ms"].as_u64().unwrap_or(5000) < 5000 {
                    knobs["keep_alive_ms"] = json!(5000);
                }
                let shape = if knobs["ws_nodes"].is_array() && r.chance(1, 2) { "good_ws" } else { "good" };
                ops.push(json!({"at_ms": 20, "op": "dial_addr", "node": a, "to": b, "shape": "good"}));
                ops.push(json!({"at_ms": 20 + r.below(3), "op": "dial_addr", "node": b, "to": a, "shape": shape}));
                faults.push(json!({"at_ms": t1, "kind": "freeze", "node": b, "heal_after_ms": *r.pick(&[3_000u64, 20_000])}));
                let burst = r.range(2, 6);
                for k in 0..burst {
                    ops.push(json!({"at_ms": t1 + 30 + k, "op": "open", "node": a, "proto": r.below(2), "to": b, "hold_ms": 0}));
                }
                let t2 = t1 + 60 + r.below(300);
                faults.push(json!({"at_ms": t2, "kind": "reset_pair", "a": a, "b": b, "k": r.below(2)}));
                match r.below(3) {
                    0 => faults.push(json!({"at_ms": t2 + r.below(3), "kind": "reset_pair", "a": a, "b": b, "k": 0})),
                    1 => faults.push(json!({"at_ms": t2 + 100 + r.below(2_000), "kind": "reset_pair", "a": a, "b": b, "k": 0})),
                    _ => {}
                }
                ops.sort_by_key(|o| o["at_ms"].as_u64().unwrap_or(0));
                faults.sort_by_key(|f| f["at_ms"].as_u64().unwrap_or(0));
            }
        }
        let mut case = json!({
            "property": self.id,
            "seed": seed,
            "nodes": n,
            "sched": SchedKind::gen(&mut rng, 4000),
            "net": NetKnobs::gen(&mut rng),
            "node_knobs": knobs,
            "no_probe_b": lacking,
            "half_close": half_close,
            "inbound_hold_ms": inbound_hold,
            "ops": ops,
            "faults": faults,
        });
        // tungstenite treats an HTTP upgrade request that arrives in more than 64 reads of fewer
        // than 128 bytes on average as an attack (`AttackAttempt`): with the WebSocket transport
        // in the run the network does not fragment below 64 bytes per read
        if ws_run && case["net"]["max_chunk"].as_u64().unwrap_or(4096) < 64 {
            case["net"]["max_chunk"] = json!(64);
        }
        case
    }

    fn systematic(&self, tier: Tier) -> Vec<Value> {
        if self.id == "C08" {
            // component sub-check (hook H5): open failures reported through the real ProtocolSet
            // reach a slow protocol exactly once and in order, whatever the state of its queue
            let n = if tier == Tier::Quick { 200 } else { 3000 };
            let mut v = Vec::new();
            for k in 0..n {
                let mut rng = Rng::fork(k as u64, "c08-open-failures");
                v.push(json!({
                    "property": "C08", "seed": 7000 + k as u64, "mode": "open_failures",
                    "sched": SchedKind::gen(&mut rng, 300),
                    "capacity": rng.range(1, 4),
                    "failures": rng.range(1, 12),
                    "established_first": rng.chance(1, 2),
                    "reader_delay_ms": *rng.pick(&[0u64, 0, 3, 50, 2000]),
                    "reader_gap_ms": *rng.pick(&[0u64, 0, 1, 20]),
                }));
            }
            return v;
        }
        if self.id != "C07" {
            return Vec::new();
        }
        // component sub-check of the "protocols before the manager" clause (hook H5)
        let n = if tier == Tier::Quick { 300 } else { 5000 };
        let mut v = Vec::new();
        for k in 0..n {
            let mut rng = Rng::fork(k as u64, "c07-protocol-set");
            v.push(json!({
                "property": "C07", "mode": "protocol_set", "seed": 7_000_000 + k as u64,
                "sched": SchedKind::gen(&mut rng, 200),
                "protocols": rng.range(1, 5), "capacity": 1,
                "reader_delay_ms": (0..5).map(|_| *rng.pick(&[0u64, 0, 1, 10, 500])).collect::<Vec<_>>(),
                "prefill": rng.chance(3, 4),
            }));
        }
        v
    }

    fn run(&self, case: &Value, verbose: bool) -> RunOutput {
        if case["mode"] == "protocol_set" {
            return run_protocol_set(case, verbose);
        }
        if case["mode"] == "open_failures" {
            return run_open_failures(case, verbose);
        }
        if case["mode"] == "clone" {
            return crate::props::c06x::run_clone(case, verbose);
        }
        let case = case.clone();
        let my_prefix = format!("{}:", self.id.to_lowercase());
        let seed = case["seed"].as_u64().unwrap_or(0);
        let sched = SchedKind::from_json(&case["sched"]);
        let ops: Vec<Value> = case["ops"].as_array().cloned().unwrap_or_default();
        let faults: Vec<Value> = case["faults"].as_array().cloned().unwrap_or_default();
        let knobs = case["node_knobs"].clone();
        let n = case["nodes"].as_u64().unwrap_or(2) as usize;
        let total = n + 3;
        let last_ms = ops.iter().map(|o| o["at_ms"].as_u64().unwrap_or(0)).max().unwrap_or(0).max(nodesim::last_fault_ms(&faults));
        let conn_open = knobs["conn_open_timeout_ms"].as_u64().unwrap_or(10_000);
        let sub_open = knobs["substream_open_timeout_ms"].as_u64().unwrap_or(5_000);
        let settle = 3 * conn_open + 2 * sub_open + 3_000;
        let t_final = last_ms + settle;
        let horizon_ms = t_final + settle;
        let max_in = knobs["max_in"].as_u64();
        let max_out = knobs["max_out"].as_u64();
        let ws_nodes: BTreeSet<usize> = knobs["ws_nodes"].as_array().map(|a| a.iter().filter_map(|x| x.as_u64()).map(|x| x as usize).collect()).unwrap_or_default();
        let no_probe_b: BTreeSet<usize> = case["no_probe_b"].as_array().map(|a| a.iter().filter_map(|x| x.as_u64()).map(|x| x as usize).collect()).unwrap_or_default();
        run_sim(seed, sched, Duration::from_millis(horizon_ms), 4_000_000, verbose, move |handle: Handle| {
            let net = SimNet::new(handle.clone(), seed, NetKnobs::from_json(&case["net"]));
            net.install();
            nodesim::install_static_faults(&net, &faults);
            let log: Log = Arc::new(Mutex::new(Vec::new()));
            let mut node_tx: Vec<Option<UnboundedSender<NodeCmd>>> = vec![None];
            let mut probe_tx: Vec<Vec<Option<UnboundedSender<ProbeCmd>>>> = vec![vec![]];
            // addresses each node knows per peer (for the "failure names a dialed address" rule)
            let known: Arc<Mutex<BTreeMap<(usize, usize), BTreeSet<String>>>> = Arc::new(Mutex::new(BTreeMap::new()));
            for i in 1..=n {
                node::CURRENT_NODE.with(|c| c.set(i));
                let mut b = base_config(&handle, seed, i, &knobs);
                let mut txs = Vec::new();
                for (idx, name) in ["/vsim/probe/a", "/vsim/probe/b"].iter().enumerate() {
                    if idx == 1 && no_probe_b.contains(&i) {
                        txs.push(None);
                        continue;
                    }
                    let (tx, rx) = unbounded_channel();
                    b = b.with_user_protocol(Box::new(Probe { node: i, idx, name: ProtocolName::from(*name), seed, nodes_total: total, log: log.clone(), handle: handle.clone(), rx, inbound_hold_ms: case["inbound_hold_ms"].as_u64().unwrap_or(50), half_close: case["half_close"].as_u64().unwrap_or(0) }));
                    txs.push(Some(tx));
                }
                let mut l = match Litep2p::new(b.build()) {
                    Ok(l) => l,
                    Err(e) => {
                        handle.violation("harness:litep2p-new", format!("{e:?}"));
                        return Box::new(|| {});
                    }
                };
                for j in 1..=n + 2 {
                    if j != i {
                        let a = full_addr(seed, j);
                        known.lock().unwrap().entry((i, j)).or_default().insert(a.to_string());
                        // WebSocket address of the peer: of a peer that listens there, and (seeded)
                        // of the refusing / black-holing ghosts; before or after the TCP address
                        let bits = knobs["ws_known"].as_u64().unwrap_or(0) >> ((i * 5 + j) % 14);
                        let give_ws = knobs["ws_nodes"].is_array() && (has_ws(&knobs, j) || j > n) && bits & 1 == 1;
                        if give_ws {
                            let w = ws_full_addr(seed, j);
                            known.lock().unwrap().entry((i, j)).or_default().insert(w.to_string());
                            if bits & 2 == 2 {
                                l.add_known_address(peer_id(seed, j), std::iter::once(w));
                                l.add_known_address(peer_id(seed, j), std::iter::once(a));
                            } else {
                                l.add_known_address(peer_id(seed, j), vec![a, w].into_iter());
                            }
                            handle.probe("ws-address-known");
                        } else {
                            l.add_known_address(peer_id(seed, j), std::iter::once(a));
                        }
                    }
                }
                node_tx.push(Some(spawn_app_loop(&handle, log.clone(), seed, total, i, l)));
                probe_tx.push(txs);
            }
            node::CURRENT_NODE.with(|c| c.set(0));
            net.host_down_opt(node_ip(n + 2), true, false);
            let dead: Arc<Mutex<BTreeMap<usize, bool>>> = Arc::new(Mutex::new(BTreeMap::new()));
            {
                let dead = dead.clone();
                let log = log.clone();
                let h = handle.clone();
                // a restarted node: same identity and listen address, no memory. For the oracles the
                // node stays "dead" (its history ends at the kill); the new incarnation is part of the
                // environment of the others: it dials every other node and answers like any node.
                let restart: nodesim::RestartFn = {
                    let (handle, log, knobs, case) = (handle.clone(), log.clone(), knobs.clone(), case.clone());
                    let keep: Arc<Mutex<Vec<UnboundedSender<NodeCmd>>>> = Arc::new(Mutex::new(Vec::new()));
                    Arc::new(move |i: usize| {
                        if i < 1 || i > n {
                            return;
                        }
                        let prev = node::CURRENT_NODE.with(|c| c.replace(i));
                        let mut b = base_config(&handle, seed, i, &knobs);
                        for (idx, name) in ["/vsim/probe/a", "/vsim/probe/b"].iter().enumerate() {
                            let (tx, rx) = unbounded_channel();
                            // the sender is dropped: the probe only reacts to the network
                            drop(tx);
                            b = b.with_user_protocol(Box::new(Probe { node: i, idx, name: ProtocolName::from(*name), seed, nodes_total: total, log: log.clone(), handle: handle.clone(), rx, inbound_hold_ms: case["inbound_hold_ms"].as_u64().unwrap_or(50), half_close: 0 }));
                        }
                        match Litep2p::new(b.build()) {
                            Ok(mut l) => {
                                for j in 1..=n {
                                    if j != i {
                                        l.add_known_address(peer_id(seed, j), std::iter::once(full_addr(seed, j)));
                                    }
                                }
                                handle.event(format!("n{i} restarted"));
                                handle.probe("node-restarted");
                                let tx = spawn_app_loop(&handle, log.clone(), seed, total, i, l);
                                for j in 1..=n {
                                    if j != i {
                                        let _ = tx.send(NodeCmd::Dial { peer: j, fin: false });
                                    }
                                }
                                keep.lock().unwrap().push(tx);
                            }
                            Err(e) => handle.event(format!("n{i} restart failed: {e:?}")),
                        }
                        node::CURRENT_NODE.with(|c| c.set(prev));
                    })
                };
                nodesim::spawn_fault_driver_ex(&handle, &net, &faults, Some(Arc::new(move |node, vanish| {
                    if node >= 1 && node <= n {
                        let mut d = dead.lock().unwrap();
                        match d.get(&node).cloned() {
                            None => {
                                d.insert(node, vanish);
                                drop(d);
                                push(&log, &h, node, K::Killed);
                            }
                            // a later incarnation is killed: it counts as vanished if any of its
                            // deaths was silent (a survivor may still hold that connection)
                            Some(v) => {
                                d.insert(node, v || vanish);
                            }
                        }
                    }
                })), Some(restart));
            }
            // ops driver + final phase
            {
                let h = handle.clone();
                let ops = ops.clone();
                let dead = dead.clone();
                let net2 = net.clone();
                let known = known.clone();
                handle.spawn(0, "ops-driver", async move {
                    let start = tokio::time::Instant::now();
                    let mut exited: BTreeSet<(usize, usize)> = BTreeSet::new();
                    for o in ops {
                        tokio::time::sleep_until(start + Duration::from_millis(o["at_ms"].as_u64().unwrap_or(0))).await;
                        let i = o["node"].as_u64().unwrap_or(1) as usize;
                        if i == 0 || i > n || dead.lock().unwrap().contains_key(&i) {
                            continue;
                        }
                        let j = o["to"].as_u64().unwrap_or(1) as usize;
                        match o["op"].as_str().unwrap_or("") {
                            "dial" => {
                                if j >= 1 && j <= total && j != i {
                                    if let Some(tx) = &node_tx[i] {
                                        let _ = tx.send(NodeCmd::Dial { peer: j, fin: false });
                                    }
                                }
                            }
                            "dial_addr" => {
                                if j < 1 || j > total || j == i {
                                    continue;
                                }
                                let shape = o["shape"].as_str().unwrap_or("good");
                                let g = o["ghost"].as_u64().unwrap_or((n + 3) as u64) as usize;
                                let (addr, peer) = if shape == "good" { (full_addr(seed, j), Some(j)) } else if shape == "good_ws" { (ws_full_addr(seed, j), Some(j)) } else { weird_addr(seed, shape, j.min(n), g.clamp(1, total)) };
                                if let Some(p) = peer {
                                    known.lock().unwrap().entry((i, p)).or_default().insert(addr.to_string());
                                }
                                if let Some(tx) = &node_tx[i] {
                                    let _ = tx.send(NodeCmd::DialAddr { addr, peer });
                                }
                            }
                            "add_addr" => {
                                if let Some(tx) = &node_tx[i] {
                                    let _ = tx.send(NodeCmd::AddAddr { peer: j, addr: full_addr(seed, j) });
                                }
                            }
                            "open_burst" => {
                                let p = o["proto"].as_u64().unwrap_or(0) as usize % 2;
                                let Some(Some(tx)) = probe_tx[i].get(p) else { continue };
                                if exited.contains(&(i, p)) {
                                    continue;
                                }
                                for _ in 0..o["count"].as_u64().unwrap_or(300).min(1000) {
                                    let _ = tx.send(ProbeCmd::Open { peer: j.clamp(1, total), hold_ms: 0 });
                                }
                            }
                            "open" | "force_close" | "probe_exit" | "pdial" => {
                                let p = o["proto"].as_u64().unwrap_or(0) as usize % 2;
                                if o["op"] == "probe_exit" {
                                    // a node whose protocols have all shut down is outside the
                                    // explored space: keep at least one probe running per node
                                    let running = probe_tx[i].iter().enumerate().filter(|(k, t)| t.is_some() && !exited.contains(&(i, *k))).count();
                                    if running <= 1 || exited.contains(&(i, p)) || probe_tx[i].get(p).map_or(true, |t| t.is_none()) {
                                        continue;
                                    }
                                    exited.insert((i, p));
                                }
                                let Some(Some(tx)) = probe_tx[i].get(p) else { continue };
                                let cmd = match o["op"].as_str().unwrap() {
                                    "open" => ProbeCmd::Open { peer: j.clamp(1, total), hold_ms: o["hold_ms"].as_u64().unwrap_or(0) },
                                    "force_close" => ProbeCmd::ForceClose { peer: j.clamp(1, total) },
                                    "pdial" => ProbeCmd::Dial { peer: j.clamp(1, total) },
                                    _ => ProbeCmd::Exit { unregister: o["unregister"].as_bool().unwrap_or(false) },
                                };
                                let _ = tx.send(cmd);
                            }
                            _ => {}
                        }
                    }
                    // final phase: faults have stopped; wait for every time-out, then re-dial pairs
                    tokio::time::sleep_until(start + Duration::from_millis(t_final)).await;
                    h.event("final phase");
                    net2.clear_static_faults();
                    let now_ns = vnow().as_nanos() as u64;
                    let table = net2.conn_table();
                    let limited = max_in.is_some() || max_out.is_some();
                    let mut dialed_one = false;
                    for i in 1..=n {
                        for j in 1..=n {
                            if limited && dialed_one {
                                continue;
                            }
                            if i == j || dead.lock().unwrap().contains_key(&i) || dead.lock().unwrap().contains_key(&j) {
                                continue;
                            }
                            let between: Vec<_> = table.iter().filter(|c| (c.1.ip() == node_ip(i) && c.2.ip() == node_ip(j)) || (c.1.ip() == node_ip(j) && c.2.ip() == node_ip(i))).collect();
                            let all_dead_long = between.iter().all(|c| c.3.is_some_and(|d| d + 2_000_000_000 <= now_ns));
                            // with limits only a pair of nodes without any live connection is
                            // re-dialed: its capacity is then certainly free
                            let idle = |x: usize| !table.iter().any(|c| c.3.is_none() && (c.1.ip() == node_ip(x) || c.2.ip() == node_ip(x)));
                            if all_dead_long && (!limited || (idle(i) && idle(j))) {
                                dialed_one = true;
                                if let Some(tx) = &node_tx[i] {
                                    let _ = tx.send(NodeCmd::Dial { peer: j, fin: true });
                                }
                            }
                        }
                    }
                });
            }
            // oracles at the horizon
            let h = handle.clone();
            Box::new(move || {
                let log = log.lock().unwrap().clone();
                let dead = dead.lock().unwrap().clone();
                let table = net.conn_table();
                let known = known.lock().unwrap().clone();
                let end_ns = vnow().as_nanos() as u64;
                let freezes: Vec<(usize, u64, u64)> = faults.iter().filter(|f| f["kind"] == "freeze").map(|f| {
                    let s = f["at_ms"].as_u64().unwrap_or(0) * 1_000_000;
                    (f["node"].as_u64().unwrap_or(0) as usize, s, s + f["heal_after_ms"].as_u64().unwrap_or(0) * 1_000_000)
                }).collect();
                let partitions: Vec<(usize, usize, u64, u64)> = faults.iter().filter(|f| f["kind"] == "partition").map(|f| {
                    let s = f["at_ms"].as_u64().unwrap_or(0) * 1_000_000;
                    (f["a"].as_u64().unwrap_or(0) as usize, f["b"].as_u64().unwrap_or(0) as usize, s, s + f["heal_after_ms"].as_u64().unwrap_or(0) * 1_000_000)
                }).collect();
                let ctx = Ctx { log: &log, dead: &dead, table: &table, known: &known, n, total, seed, end_ns, max_in, max_out, sub_open_ms: sub_open, t_final_ns: t_final * 1_000_000, any_net_fault: !faults.is_empty(), no_probe_b: &no_probe_b, ws_nodes: &ws_nodes, freezes: &freezes, partitions: &partitions };
                let vs = ctx.check();
                for (class, detail) in vs.iter() {
                    h.probe(&format!("oracle-hit:{}", class.split(':').next().unwrap_or("")));
                    let _ = detail;
                }
                if let Some((class, detail)) = vs.into_iter().find(|(c, _)| c.starts_with(&my_prefix)) {
                    h.violation(class, detail);
                }
                // reach probes
                let mut sec = 0;
                for r in log.iter() {
                    if let K::AppEstablished { .. } = r.k {
                        sec += 1;
                    }
                }
                h.probe_n("app-established-events", sec);
            })
        })
    }
}

struct Ctx<'a> {
    log: &'a [Rec],
    dead: &'a BTreeMap<usize, bool>,
    table: &'a [(usize, std::net::SocketAddr, std::net::SocketAddr, Option<u64>, u64)],
    known: &'a BTreeMap<(usize, usize), BTreeSet<String>>,
    n: usize,
    total: usize,
    seed: u64,
    end_ns: u64,
    max_in: Option<u64>,
    max_out: Option<u64>,
    sub_open_ms: u64,
    t_final_ns: u64,
    no_probe_b: &'a BTreeSet<usize>,
    /// nodes that also listen on the WebSocket transport
    ws_nodes: &'a BTreeSet<usize>,
    /// process stalls of the plan: (node, start ns, end ns)
    freezes: &'a [(usize, u64, u64)],
    /// partitions of the plan: (host a, host b, start ns, heal ns)
    partitions: &'a [(usize, usize, u64, u64)],
    any_net_fault: bool,
}

impl<'a> Ctx<'a> {
    fn alive(&self, i: usize) -> bool {
        i >= 1 && i <= self.n && !self.dead.contains_key(&i)
    }

    fn conns_between(&self, i: usize, j: usize) -> Vec<&(usize, std::net::SocketAddr, std::net::SocketAddr, Option<u64>, u64)> {
        self.table.iter().filter(|c| (c.1.ip() == node_ip(i) && c.2.ip() == node_ip(j)) || (c.1.ip() == node_ip(j) && c.2.ip() == node_ip(i))).collect()
    }

    /// peer index named by the last /p2p component of an address string
    fn addr_peer(&self, addr: &str) -> Option<usize> {
        let a: Multiaddr = addr.parse().ok()?;
        match a.iter().last() {
            Some(multiaddr::Protocol::P2p(p)) => {
                let pid = PeerId::try_from_multiaddr(&a)?;
                let _ = p;
                Some(peer_index(self.seed, self.total, &pid)).filter(|x| *x != 0)
            }
            _ => None,
        }
    }

    fn check(&self) -> Vec<(String, String)> {
        let mut v = Vec::new();
        for i in 1..=self.n {
            self.check_node(i, &mut v);
        }
        v
    }

    fn check_node(&self, i: usize, v: &mut Vec<(String, String)>) {
        let killed_at = self.log.iter().find(|r| r.node == i && matches!(r.k, K::Killed)).map(|r| r.t);
        let evs: Vec<&Rec> = self.log.iter().filter(|r| r.node == i && killed_at.map_or(true, |k| r.t <= k)).collect();
        let alive = self.alive(i);

        // ---------- C08: per protocol event stream ----------
        let mut probe_exited: BTreeMap<usize, u64> = BTreeMap::new();
        for r in &evs {
            if let K::PExit { proto } = r.k {
                probe_exited.entry(proto).or_insert(r.t);
            }
        }
        let mut ids_seen: BTreeMap<String, usize> = BTreeMap::new();
        for proto in 0..2usize {
            let mut connected: BTreeMap<usize, bool> = BTreeMap::new();
            // id -> (peer, call time, answers)
            let mut opens: BTreeMap<String, (usize, u64, u32)> = BTreeMap::new();
            for r in &evs {
                match &r.k {
                    K::PEstablished { proto: p, peer } if *p == proto => {
                        if *connected.get(peer).unwrap_or(&false) {
                            v.push(("c08:double-established".into(), format!("node {i} protocol {proto}: ConnectionEstablished for peer n{peer} at {:.3}s while already connected", r.t as f64 / 1e9)));
                        }
                        connected.insert(*peer, true);
                    }
                    K::PClosed { proto: p, peer } if *p == proto => {
                        if !*connected.get(peer).unwrap_or(&false) {
                            v.push(("c08:closed-without-established".into(), format!("node {i} protocol {proto}: ConnectionClosed for peer n{peer} at {:.3}s while not connected", r.t as f64 / 1e9)));
                        }
                        connected.insert(*peer, false);
                    }
                    K::POpenCall { proto: p, peer, id: Some(id), .. } if *p == proto => {
                        if !*connected.get(peer).unwrap_or(&false) {
                            v.push(("c08:open-accepted-while-disconnected".into(), format!("node {i} protocol {proto}: open_substream(n{peer}) returned Ok at {:.3}s although the protocol saw no connection", r.t as f64 / 1e9)));
                        }
                        if let Some(prev) = ids_seen.insert(id.clone(), proto) {
                            v.push(("c08:substream-id-reused".into(), format!("node {i}: outbound substream id {id} returned twice (protocols {prev} and {proto})")));
                        }
                        opens.insert(id.clone(), (*peer, r.t, 0));
                    }
                    K::PSubOpened { proto: p, peer, out_id } if *p == proto => {
                        if !*connected.get(peer).unwrap_or(&false) {
                            v.push(("c08:substream-event-while-disconnected".into(), format!("node {i} protocol {proto}: SubstreamOpened for peer n{peer} at {:.3}s while not connected", r.t as f64 / 1e9)));
                        }
                        if let Some(id) = out_id {
                            match opens.get_mut(id) {
                                None => v.push(("c08:answer-unknown-id".into(), format!("node {i} protocol {proto}: SubstreamOpened carries outbound id {id} which open_substream never returned to this protocol"))),
                                Some(o) => {
                                    o.2 += 1;
                                    if o.2 > 1 {
                                        v.push(("c08:answered-twice".into(), format!("node {i} protocol {proto}: substream id {id} answered {} times", o.2)));
                                    }
                                    if o.0 != *peer {
                                        v.push(("c08:answer-wrong-peer".into(), format!("node {i} protocol {proto}: substream id {id} requested for n{} opened towards n{peer}", o.0)));
                                    }
                                }
                            }
                        }
                    }
                    K::PSubFailure { proto: p, id } if *p == proto => match opens.get_mut(id) {
                        None => v.push(("c08:answer-unknown-id".into(), format!("node {i} protocol {proto}: SubstreamOpenFailure carries id {id} which open_substream never returned to this protocol"))),
                        Some(o) => {
                            o.2 += 1;
                            if o.2 > 1 {
                                v.push(("c08:answered-twice".into(), format!("node {i} protocol {proto}: substream id {id} answered {} times", o.2)));
                            }
                            if !*connected.get(&o.0).unwrap_or(&false) {
                                v.push(("c08:substream-event-while-disconnected".into(), format!("node {i} protocol {proto}: SubstreamOpenFailure({id}) for peer n{} at {:.3}s while not connected", o.0, r.t as f64 / 1e9)));
                            }
                        }
                    },
                    _ => {}
                }
            }
            // unanswered opens
            if alive && !probe_exited.contains_key(&proto) {
                for (id, (peer, t, answers)) in opens.iter() {
                    if *answers > 0 {
                        continue;
                    }
                    // excused if the protocol was told the peer disconnected after the call, if any
                    // network connection between the two nodes ended after the call, if somebody
                    // force-closed, or if the run ended before the open time-out could fire
                    // The request must be answered by the open time-out; only what happens until then
                    // can excuse silence (a process stall of this node moves the deadline).
                    let mut deadline = *t + (self.sub_open_ms + 2_000) * 1_000_000;
                    // (to a fixpoint: a second stall that begins before the moved deadline - e.g. while
                    // the first one is still in force - moves it again)
                    loop {
                        let cur = deadline;
                        for f in self.freezes.iter().filter(|f| f.0 == i && f.1 <= cur && f.2 >= *t) {
                            deadline = deadline.max(f.2 + (self.sub_open_ms + 2_000) * 1_000_000);
                        }
                        if deadline == cur {
                            break;
                        }
                    }
                    let closed_after = evs.iter().any(|r| r.t >= *t && r.t <= deadline && matches!(&r.k, K::PClosed { proto: p, peer: q } if *p == proto && q == peer));
                    // (a host that vanished silently: SimNet records the instant of the vanishing,
                    // the surviving end notices - and terminates the connection - only at its next
                    // write, possibly this very request)
                    let net_end = self.conns_between(i, *peer).iter().any(|c| c.3.is_some_and(|d| d >= *t && d <= deadline)) || self.dead.get(peer) == Some(&true);
                    let forced = evs.iter().any(|r| r.t >= *t && r.t <= deadline && matches!(&r.k, K::PForceClose { peer: q, .. } if q == peer));
                    let too_late = deadline > self.end_ns;
                    if !(closed_after || net_end || forced || too_late) {
                        v.push(("c08:open-never-answered".into(), format!("node {i} protocol {proto}: open_substream(n{peer}) -> {id} at {:.3}s got neither SubstreamOpened nor SubstreamOpenFailure although no connection to the peer ended", *t as f64 / 1e9)));
                    }
                }
            }
        }

        // ---------- C08: the protocols of one node agree on which peers are connected ----------
        // every connection event is reported to all installed protocols in one go; a protocol that
        // sees a peer come or go while its sibling, 2 s either way, does not has lost track of
        // a connection
        if !self.no_probe_b.contains(&i) && probe_exited.is_empty() {
            let w = 2_000_000_000u64;
            let limit = killed_at.unwrap_or(self.end_ns);
            for r in &evs {
                let (proto, peer, est) = match &r.k {
                    K::PEstablished { proto, peer } => (*proto, *peer, true),
                    K::PClosed { proto, peer } => (*proto, *peer, false),
                    _ => continue,
                };
                if r.t + w > limit {
                    continue;
                }
                let sibling = 1 - proto;
                // a process stall may fall between the two deliveries
                let (mut lo, mut hi) = (r.t.saturating_sub(w), r.t + w);
                for f in self.freezes.iter().filter(|f| f.0 == i && f.1 <= r.t + w && f.2 + w >= r.t) {
                    lo = lo.min(f.1.saturating_sub(w));
                    hi = hi.max(f.2 + w);
                }
                if hi > limit {
                    continue;
                }
                let matched = evs.iter().any(|q| q.t >= lo && q.t <= hi && match &q.k {
                    K::PEstablished { proto: p2, peer: x } => est && *p2 == sibling && *x == peer,
                    K::PClosed { proto: p2, peer: x } => !est && *p2 == sibling && *x == peer,
                    _ => false,
                });
                if !matched {
                    v.push(("c08:protocols-disagree-on-connection".into(), format!("node {i}: protocol {proto} was told Connection{} for peer n{peer} at {:.3}s, protocol {sibling} of the same node was told nothing of the kind within 2 s either way", if est { "Established" } else { "Closed" }, r.t as f64 / 1e9)));
                    break;
                }
            }
        }

        // ---------- protocol-requested dials (C05) ----------
        if alive {
            for (idx, r) in evs.iter().enumerate() {
                if let K::PDialCall { proto, peer, ok: true, .. } = &r.k {
                    if probe_exited.contains_key(proto) {
                        continue;
                    }
                    let answered = evs[idx..].iter().any(|q| match &q.k {
                        K::PEstablished { proto: p, peer: x } => p == proto && x == peer,
                        K::PDialFailure { proto: p, peer: x } => p == proto && x == peer,
                        // an application-level dial of the same peer may conclude the same attempt
                        K::AppEstablished { peer: x, .. } => x == peer,
                        _ => false,
                    });
                    if !answered {
                        v.push(("c05:protocol-dial-silent".into(), format!("node {i} protocol {proto}: TransportService::dial(n{peer}) accepted at {:.3}s was followed neither by a connection with the peer nor by a dial failure", r.t as f64 / 1e9)));
                    }
                }
            }
        }

        // ---------- application-level connection state ----------
        let mut est_since_close: BTreeMap<usize, u32> = BTreeMap::new();
        for r in &evs {
            match &r.k {
                K::AppEstablished { peer, .. } => *est_since_close.entry(*peer).or_insert(0) += 1,
                K::AppClosed { peer } => {
                    if *est_since_close.get(peer).unwrap_or(&0) == 0 {
                        v.push(("c07:closed-before-established".into(), format!("node {i}: Litep2pEvent::ConnectionClosed(n{peer}) at {:.3}s without a preceding ConnectionEstablished", r.t as f64 / 1e9)));
                    }
                    est_since_close.insert(*peer, 0);
                }
                _ => {}
            }
        }
        if alive {
            let quiet_ns = 100_000_000u64;
            for j in 1..=self.n {
                if j == i {
                    continue;
                }
                let recent = evs.iter().any(|r| r.t + quiet_ns > self.end_ns && involves(&r.k, j));
                let cb = self.conns_between(i, j);
                let all_dead = cb.iter().all(|c| c.3.is_some_and(|d| d + quiet_ns <= self.end_ns));
                let peer_vanished = self.dead.get(&j).cloned().unwrap_or(false);
                let app_connected = *est_since_close.get(&j).unwrap_or(&0) > 0;
                if all_dead && !peer_vanished && !recent && app_connected {
                    v.push(("c07:app-still-connected".into(), format!("node {i}: every network connection to n{j} ended at least 100 ms before the horizon but the application never saw ConnectionClosed(n{j})")));
                }
                // per-protocol view must agree with the application's at quiescence
                for proto in 0..2usize {
                    if probe_exited.contains_key(&proto) {
                        continue;
                    }
                    let mut pc: Option<bool> = None;
                    let mut exists = false;
                    for r in &evs {
                        match &r.k {
                            K::PEstablished { proto: p, peer } if *p == proto && *peer == j => pc = Some(true),
                            K::PClosed { proto: p, peer } if *p == proto && *peer == j => pc = Some(false),
                            K::PEstablished { proto: p, .. } | K::PClosed { proto: p, .. } | K::POpenCall { proto: p, .. } if *p == proto => exists = true,
                            _ => {}
                        }
                    }
                    let _ = exists;
                    let has_probe = self.log.iter().any(|r| r.node == i && matches!(&r.k, K::PEstablished { proto: p, .. } | K::POpenCall { proto: p, .. } | K::PExit { proto: p } if *p == proto)) || pc.is_some();
                    if recent || peer_vanished {
                        continue;
                    }
                    if all_dead && pc == Some(true) {
                        v.push(("c07:protocol-not-told-closed".into(), format!("node {i} protocol {proto}: every network connection to n{j} ended at least 100 ms before the horizon but the protocol never saw ConnectionClosed(n{j})")));
                    }
                    if has_probe && app_connected && pc != Some(true) && !all_dead {
                        // connected at application level, live network connection, protocol running
                        // but never told: only a violation if the protocol was running when the
                        // connection was established (it always is unless it exited)
                        v.push(("c07:protocol-not-told-established".into(), format!("node {i} protocol {proto}: application is connected to n{j} over a live connection but the running protocol was never told")));
                    }
                }
            }
        }

        // ---------- dial ledger (C05) and final phase (C05/C06/C07) ----------
        if alive {
            let mut accepted_calls: BTreeMap<usize, u64> = BTreeMap::new();
            let mut outcomes: BTreeMap<usize, u64> = BTreeMap::new();
            for (idx, r) in evs.iter().enumerate() {
                match &r.k {
                    K::DialCall { peer, addr, ok, err, fin } => {
                        if *ok {
                            if let Some(p) = peer {
                                *accepted_calls.entry(*p).or_insert(0) += 1;
                                // never silence
                                let answered = evs[idx..].iter().any(|q| match &q.k {
                                    K::AppEstablished { peer: x, .. } => x == p,
                                    K::AppDialFailure { addr } => self.addr_peer(addr) == Some(*p),
                                    K::AppListDialFailures { addrs } => addrs.iter().any(|a| self.addr_peer(a) == Some(*p)) || addrs.is_empty(),
                                    _ => false,
                                });
                                if !answered {
                                    let what = addr.clone().unwrap_or_else(|| format!("peer n{p}"));
                                    let cls = if *fin { "c05:final-dial-silent" } else { "c05:dial-silent" };
                                    v.push((cls.into(), format!("node {i}: dial of {what} accepted at {:.3}s produced neither a connection with n{p} nor a dial failure by the horizon {:.3}s", r.t as f64 / 1e9, self.end_ns as f64 / 1e9)));
                                }
                            } else {
                                // accepted an address without a usable peer id: must at least fail
                                let what = addr.clone().unwrap_or_default();
                                let answered = evs[idx..].iter().any(|q| matches!(&q.k, K::AppDialFailure { .. } | K::AppListDialFailures { .. } | K::AppEstablished { .. }));
                                if !answered {
                                    v.push(("c05:malformed-accepted-silent".into(), format!("node {i}: dial_address({what}) returned Ok and nothing was ever reported")));
                                }
                            }
                        }
                        if *fin {
                            let p = peer.unwrap_or(0);
                            if !*ok && err.contains("AlreadyConnected") {
                                v.push(("c07:stale-connected".into(), format!("node {i}: every network connection to n{p} had ended at least 2 s earlier, yet dial(n{p}) at {:.3}s returned AlreadyConnected", r.t as f64 / 1e9)));
                            } else if *ok {
                                let established = evs[idx..].iter().any(|q| matches!(&q.k, K::AppEstablished { peer: x, .. } if *x == p));
                                let failed = evs[idx..].iter().any(|q| match &q.k {
                                    K::AppDialFailure { addr } => self.addr_peer(addr) == Some(p),
                                    K::AppListDialFailures { addrs } => addrs.iter().any(|a| self.addr_peer(a) == Some(p)),
                                    _ => false,
                                });
                                // capacity: conservative (all live connections touching a node count)
                                let live_i = self.table.iter().filter(|c| c.3.map_or(true, |d| d > r.t) && c.4 <= r.t && (c.1.ip() == node_ip(i) || c.2.ip() == node_ip(i))).count() as u64;
                                let live_p = self.table.iter().filter(|c| c.3.map_or(true, |d| d > r.t) && c.4 <= r.t && (c.1.ip() == node_ip(p) || c.2.ip() == node_ip(p))).count() as u64;
                                // without limits capacity is always free; with limits exactly one
                                // pair of idle nodes is re-dialed (see the final phase)
                                let limited = self.max_in.is_some() || self.max_out.is_some();
                                // a connection to a silently vanished host still counts at the
                                // surviving end until it notices: no capacity claim in such runs
                                let vanished = self.dead.values().any(|v| *v);
                                let cap_ok = !limited || (live_i == 0 && live_p == 0 && !vanished && self.max_in != Some(0) && self.max_out != Some(0));
                                // a dial tries the best-scored addresses only (as many as there is
                                // free capacity): the success of the re-dial is only asserted when
                                // the peer's real address is the only one this node was ever given
                                let only_real = self.known.get(&(i, p)).is_some_and(|s| s.iter().all(|a| *a == full_addr(self.seed, p).to_string() || (self.ws_nodes.contains(&p) && *a == ws_full_addr(self.seed, p).to_string())));
                                if !established && failed && cap_ok && only_real && self.alive(p) {
                                    v.push(("c06:final-dial-refused".into(), format!("node {i}: dial(n{p}) at {:.3}s on a healthy network with free capacity ended in a dial failure", r.t as f64 / 1e9)));
                                    let exited_any = self.log.iter().any(|q| matches!(q.k, K::PExit { .. }) && (q.node == i || q.node == p));
                                    if exited_any {
                                        v.push(("c07:isolation-new-connection-refused".into(), format!("node {i}: after a protocol shut down, dial(n{p}) at {:.3}s on a healthy network failed", r.t as f64 / 1e9)));
                                    }
                                }
                            } else if !err.contains("ConnectionLimit") && !err.contains("NoAddressAvailable") && !err.contains("AlreadyConnected") {
                                v.push(("c05:final-dial-error".into(), format!("node {i}: dial(n{p}) in the final phase returned {err}")));
                            }
                        }
                    }
                    // dials requested by a protocol conclude with application-level events too
                    K::PDialCall { peer, ok: true, .. } => *accepted_calls.entry(*peer).or_insert(0) += 1,
                    K::AppEstablished { peer, listener: false, .. } => *outcomes.entry(*peer).or_insert(0) += 1,
                    K::AppDialFailure { addr } => {
                        match self.addr_peer(addr) {
                            Some(p) => {
                                *outcomes.entry(p).or_insert(0) += 1;
                                if !self.known.get(&(i, p)).is_some_and(|s| s.contains(addr)) {
                                    v.push(("c05:failure-names-undialed-address".into(), format!("node {i}: DialFailure names {addr}, which was never given to this node for n{p}")));
                                }
                            }
                            None => {}
                        }
                    }
                    K::AppListDialFailures { addrs } => {
                        let peers: BTreeSet<usize> = addrs.iter().filter_map(|a| self.addr_peer(a)).collect();
                        for p in peers {
                            *outcomes.entry(p).or_insert(0) += 1;
                        }
                        for a in addrs {
                            if let Some(p) = self.addr_peer(a) {
                                if !self.known.get(&(i, p)).is_some_and(|s| s.contains(a)) {
                                    v.push(("c05:failure-names-undialed-address".into(), format!("node {i}: ListDialFailures names {a}, which was never given to this node for n{p}")));
                                }
                            }
                        }
                    }
                    _ => {}
                }
                // at every prefix: outcomes of local dials never outnumber accepted dial calls
                let over: Option<(usize, u64)> = outcomes.iter().find(|(p, o)| **o > *accepted_calls.get(*p).unwrap_or(&0)).map(|(p, o)| (*p, *o));
                if let Some((p, o)) = over {
                    v.push(("c05:more-outcomes-than-dials".into(), format!("node {i}: by {:.3}s there are {o} dial outcomes (dialer-side connections + dial failures) for n{p} but only {} accepted dial calls", r.t as f64 / 1e9, accepted_calls.get(&p).unwrap_or(&0))));
                    outcomes.insert(p, 0);
                    accepted_calls.insert(p, u64::MAX / 2);
                }
            }
        }

        // ---------- connection caps (C06) ----------
        // a dial refused for the outbound limit: the outbound connections the manager can possibly
        // be counting (every network connection this node opened that was alive, or had ended less
        // than 2 s before) must reach the limit. Not judged when a host vanished silently: the
        // surviving end keeps counting such a connection until it notices.
        if let (Some(m), false) = (self.max_out, self.dead.values().any(|v| *v)) {
            for r in &evs {
                let (err, what) = match &r.k {
                    K::DialCall { ok: false, err, .. } => (err, "dial"),
                    K::PDialCall { ok: false, err, .. } => (err, "TransportService::dial"),
                    _ => continue,
                };
                if !err.contains("MaxOutgoingConnectionsExceeded") {
                    continue;
                }
                // a stalled process learns of a close only after it resumes, and the far end's close
                // crosses a partition only when it heals
                let lag = |d: u64, remote: std::net::IpAddr| {
                    let f = self.freezes.iter().filter(|f| f.0 == i && f.1 <= r.t && f.2 >= d).map(|f| f.2).max().unwrap_or(d);
                    let p = self.partitions.iter().filter(|p| ((node_ip(p.0) == node_ip(i) && node_ip(p.1) == remote) || (node_ip(p.1) == node_ip(i) && node_ip(p.0) == remote)) && p.2 <= r.t && p.3 >= d).map(|p| p.3).max().unwrap_or(d);
                    f.max(p).max(d)
                };
                let upper = self.table.iter().filter(|c| c.1.ip() == node_ip(i) && c.4 <= r.t && c.3.map_or(true, |d| lag(d, c.2.ip()) + 2_000_000_000 > r.t)).count() as u64;
                if upper < m {
                    v.push(("c06:dial-refused-below-limit".into(), format!("node {i}: {what} at {:.3}s refused with MaxOutgoingConnectionsExceeded, max_outgoing_connections = {m}, but this node had opened at most {upper} connection(s) that were alive or had ended within the last 2 s", r.t as f64 / 1e9)));
                    break;
                }
            }
        }
        // map every application-level ConnectionEstablished to the network connection it is about
        let mut accepted: Vec<(u64, usize, bool, usize)> = Vec::new(); // (t, peer, inbound, net conn id)
        let mut used: BTreeSet<usize> = BTreeSet::new();
        for r in &evs {
            if let K::AppEstablished { peer, listener, addr } = &r.k {
                let cand = if *listener {
                    // the listener endpoint carries the remote socket address, unique per connection
                    self.table.iter().find(|c| c.2.ip() == node_ip(i) && (format!("/ip4/{}/tcp/{}", c.1.ip(), c.1.port()) == *addr || addr.starts_with(&format!("/ip4/{}/tcp/{}/ws", c.1.ip(), c.1.port()))) && !used.contains(&c.0))
                } else {
                    // latest connection from this node to that peer created before the event
                    self.table.iter().filter(|c| c.1.ip() == node_ip(i) && c.2.ip() == node_ip(*peer) && c.4 <= r.t && !used.contains(&c.0)).last()
                };
                if let Some(c) = cand {
                    used.insert(c.0);
                    accepted.push((r.t, *peer, *listener, c.0));
                }
            }
        }
        for (t, _, _, _) in accepted.iter() {
            let live: Vec<&(u64, usize, bool, usize)> = accepted.iter().filter(|a| a.0 <= *t && self.table[a.3].3.map_or(true, |d| d > *t)).collect();
            let inb = live.iter().filter(|a| a.2).count() as u64;
            let outb = live.iter().filter(|a| !a.2).count() as u64;
            if let Some(m) = self.max_in {
                if inb > m {
                    v.push(("c06:inbound-limit-exceeded".into(), format!("node {i}: {inb} accepted inbound connections alive at {:.3}s, max_incoming_connections = {m}", *t as f64 / 1e9)));
                }
            }
            if let Some(m) = self.max_out {
                if outb > m {
                    v.push(("c06:outbound-limit-exceeded".into(), format!("node {i}: {outb} accepted outbound connections alive at {:.3}s, max_outgoing_connections = {m}", *t as f64 / 1e9)));
                }
            }
            let mut per_peer: BTreeMap<usize, u32> = BTreeMap::new();
            for a in live.iter() {
                *per_peer.entry(a.1).or_insert(0) += 1;
            }
            for (p, c) in per_peer {
                if c > 2 {
                    v.push(("c06:more-than-two-per-peer".into(), format!("node {i}: {c} accepted connections to n{p} alive at {:.3}s", *t as f64 / 1e9)));
                }
            }
        }
        let _ = self.t_final_ns;
        let _ = self.any_net_fault;
    }
}

fn involves(k: &K, j: usize) -> bool {
    match k {
        K::AppEstablished { peer, .. } | K::AppClosed { peer } => *peer == j,
        K::PEstablished { peer, .. } | K::PClosed { peer, .. } | K::PSubOpened { peer, .. } | K::POpenCall { peer, .. } | K::PForceClose { peer, .. } => *peer == j,
        K::DialCall { peer, .. } => *peer == Some(j),
        _ => false,
    }
}

#[allow(dead_code)]
fn unused(_: &dyn Fn(&PeerId) -> String) {
    let _ = short;
}


/// C07 component sub-check: a real `ProtocolSet` (hook H5) fans a connection-closed report out to
/// protocol queues that may be full; the manager must not be told before every protocol has been.
/// Queues are pre-filled to capacity by the established report, so a protocol's queue can only
/// take the closed event after its reader has removed something: if the manager receives its
/// event while a protocol reader has not yet dequeued anything, the manager was told first.
fn run_protocol_set(case: &Value, verbose: bool) -> RunOutput {
    use litep2p::verif::protocol_set::{Harness, Seen};
    let case = case.clone();
    let seed = case["seed"].as_u64().unwrap_or(0);
    let sched = SchedKind::from_json(&case["sched"]);
    run_sim(seed, sched, Duration::from_secs(60), 1_000_000, verbose, move |handle: Handle| {
        let n = case["protocols"].as_u64().unwrap_or(2) as usize;
        let cap = case["capacity"].as_u64().unwrap_or(1) as usize;
        let (mut harness, queues, mut mgr) = Harness::new(peer_id(seed, 2), n, cap);
        // how many events each protocol reader has taken so far
        let taken: Arc<Mutex<Vec<usize>>> = Arc::new(Mutex::new(vec![0; n]));
        let closed_seen: Arc<Mutex<Vec<bool>>> = Arc::new(Mutex::new(vec![false; n]));
        let delays: Vec<u64> = case["reader_delay_ms"].as_array().map(|a| a.iter().map(|x| x.as_u64().unwrap_or(0)).collect()).unwrap_or_default();
        let prefill = case["prefill"].as_bool().unwrap_or(true);
        let filled = Arc::new(Mutex::new(false));
        for (i, mut q) in queues.into_iter().enumerate() {
            let taken = taken.clone();
            let closed_seen = closed_seen.clone();
            let d = delays.get(i).cloned().unwrap_or(0);
            let filled = filled.clone();
            handle.spawn(1, "protocol-reader", async move {
                // a slow protocol: starts reading only after a delay, once the queue was filled
                loop {
                    tokio::time::sleep(Duration::from_millis(1)).await;
                    if *filled.lock().unwrap() {
                        break;
                    }
                }
                tokio::time::sleep(Duration::from_millis(d)).await;
                while let Some(ev) = q.next().await {
                    taken.lock().unwrap()[i] += 1;
                    if ev == Seen::Closed {
                        closed_seen.lock().unwrap()[i] = true;
                    }
                }
            });
        }
        {
            let h = handle.clone();
            let filled = filled.clone();
            handle.spawn(1, "connection-task", async move {
                if prefill {
                    // fill every queue: `capacity` established reports (the first fits, the others
                    // are what a busy connection would have queued)
                    // (the established report may be made once per connection; capacity is 1)
                    if harness.report_connection_established().await.is_err() {
                        return;
                    }
                }
                *filled.lock().unwrap() = true;
                let r = harness.report_connection_closed().await;
                h.event(format!("report_connection_closed -> {r:?}"));
                // keep the set alive
                tokio::time::sleep(Duration::from_secs(30)).await;
                drop(harness);
            });
        }
        {
            let h = handle.clone();
            let taken = taken.clone();
            let closed_seen = closed_seen.clone();
            handle.spawn(1, "manager-reader", async move {
                if let Some(Seen::Closed) = mgr.next().await {
                    let t = taken.lock().unwrap().clone();
                    h.event(format!("manager told; protocol readers have taken {t:?} events"));
                    if prefill {
                        if let Some(i) = t.iter().position(|x| *x == 0) {
                            h.violation("c07:manager-told-before-protocol", format!("the transport manager received ConnectionClosed while the (full, capacity {cap}) event queue of protocol {i} had not been read at all: that protocol cannot have been told yet"));
                            return;
                        }
                    }
                    h.probe("manager-told-after-protocols");
                }
                // every protocol must eventually see the close exactly once
                tokio::time::sleep(Duration::from_secs(5)).await;
                if closed_seen.lock().unwrap().iter().any(|c| !*c) {
                    h.violation("c07:protocol-not-told-closed", format!("protocol set: not every protocol saw ConnectionClosed: {:?}", closed_seen.lock().unwrap()));
                    return;
                }
                h.stop();
            });
        }
        Box::new(|| {})
    })
}

/// C08 component sub-check (hook H5): `ProtocolSet::report_substream_open_failure` towards a
/// protocol whose event queue is small and read slowly. Every reported failure must arrive, once,
/// in the order reported.
fn run_open_failures(case: &Value, verbose: bool) -> RunOutput {
    use litep2p::verif::protocol_set::{Harness, Seen};
    let case = case.clone();
    let seed = case["seed"].as_u64().unwrap_or(0);
    let sched = SchedKind::from_json(&case["sched"]);
    run_sim(seed, sched, Duration::from_secs(120), 1_000_000, verbose, move |handle: Handle| {
        let cap = case["capacity"].as_u64().unwrap_or(1) as usize;
        let m = case["failures"].as_u64().unwrap_or(3) as usize;
        let (mut harness, mut queues, _mgr) = Harness::new(peer_id(seed, 2), 1, cap);
        let mut q = queues.remove(0);
        let got: Arc<Mutex<Vec<usize>>> = Arc::new(Mutex::new(Vec::new()));
        let results: Arc<Mutex<Vec<String>>> = Arc::new(Mutex::new(Vec::new()));
        let (d0, gap) = (case["reader_delay_ms"].as_u64().unwrap_or(0), case["reader_gap_ms"].as_u64().unwrap_or(0));
        {
            let got = got.clone();
            handle.spawn(1, "protocol-reader", async move {
                tokio::time::sleep(Duration::from_millis(d0)).await;
                while let Some(ev) = q.next().await {
                    if let Seen::OpenFailure(id) = ev {
                        got.lock().unwrap().push(id);
                    }
                    if gap > 0 {
                        tokio::time::sleep(Duration::from_millis(gap)).await;
                    }
                }
            });
        }
        {
            let h = handle.clone();
            let results = results.clone();
            let est = case["established_first"].as_bool().unwrap_or(false);
            handle.spawn(1, "connection-task", async move {
                if est {
                    let _ = harness.report_connection_established().await;
                }
                for k in 0..m {
                    let r = harness.report_substream_open_failure(0, 100 + k).await;
                    results.lock().unwrap().push(format!("{r:?}"));
                }
                h.probe("open-failures-reported");
                // give the reader time to drain, then end the run
                tokio::time::sleep(Duration::from_secs(30)).await;
                h.stop();
                drop(harness);
            });
        }
        let h = handle.clone();
        Box::new(move || {
            let got = got.lock().unwrap().clone();
            let want: Vec<usize> = (0..m).map(|k| 100 + k).collect();
            if got != want {
                h.violation("c08:open-failure-lost", format!("protocol set: {m} failed opens were reported to a protocol with an event queue of {cap} (reader starts after {d0} ms, {gap} ms between reads); the protocol received {got:?}, expected {want:?}; results on the connection side: {:?}", results.lock().unwrap()));
            }
        })
    })
}
