pub mod c13;

use crate::runner::Prop;
use std::sync::Arc;

pub fn all() -> Vec<Arc<dyn Prop>> {
    vec![Arc::new(c13::C13)]
}

pub fn by_id(id: &str) -> Option<Arc<dyn Prop>> {
    all().into_iter().find(|p| p.id() == id)
}
