pub mod c01;
pub mod c02;
pub mod c03;
pub mod c04;
pub mod c06x;
pub mod c09;
pub mod c09b;
pub mod c10;
pub mod c13;
pub mod c14;
pub mod c15;
pub mod c16;
pub mod c17;
pub mod conn;
pub mod notif;

use crate::runner::Prop;
use std::sync::Arc;

pub fn all() -> Vec<Arc<dyn Prop>> {
    vec![
        Arc::new(c01::C01),
        Arc::new(c02::C02),
        Arc::new(c03::C03),
        Arc::new(c04::C04),
        Arc::new(conn::ConnProp { id: "C05" }),
        Arc::new(conn::ConnProp { id: "C06" }),
        Arc::new(conn::ConnProp { id: "C07" }),
        Arc::new(conn::ConnProp { id: "C08" }),
        Arc::new(c09::C09),
        Arc::new(c10::C10),
        Arc::new(notif::NotifProp { id: "C11" }),
        Arc::new(notif::NotifProp { id: "C12" }),
        Arc::new(c13::C13),
        Arc::new(c14::C14),
        Arc::new(c15::C15),
        Arc::new(c16::C16),
        Arc::new(c17::C17),
    ]
}

pub fn by_id(id: &str) -> Option<Arc<dyn Prop>> {
    all().into_iter().find(|p| p.id() == id)
}
