//! Notification scenario serving C11 (stream open/close protocol towards the user) and C12
//! (ordering / loss / duplication of notifications).
//!
//! 2-3 complete litep2p nodes with one notification protocol each. A user driver per node owns the
//! `NotificationHandle`: it executes open/close/send commands, answers validations according to a
//! per-node policy (accept / reject / ignore, with a delay), may stop reading for a while (stall)
//! and records every command and every event in one totally ordered log. After the last operation
//! and fault, a fault-free final phase resets the drivers and opens a canary stream between every
//! pair of live nodes.
use crate::node::{self, base_config, full_addr, gen_node_knobs, node_ip, peer_id};
use crate::nodesim;
use crate::rng::Rng;
use crate::runner::{Budget, Describe, Prop, Tier};
use crate::sim::{run_sim, vnow, Handle, RunOutput, SchedKind};
use crate::simnet::{NetKnobs, SimNet};
use futures::StreamExt;
use litep2p::{
    codec::ProtocolCodec,
    protocol::notification::{ConfigBuilder as NotifBuilder, Direction, NotificationEvent, NotificationHandle, ValidationResult},
    protocol::{Direction as SubDirection, TransportEvent, TransportService, UserProtocol},
    substream::Substream,
    Litep2p, Litep2pEvent, PeerId, ProtocolName,
};
use serde_json::{json, Value};
use std::{
    collections::{BTreeMap, BTreeSet},
    sync::{Arc, Mutex},
    time::Duration,
};
use tokio::sync::mpsc::{unbounded_channel, UnboundedReceiver, UnboundedSender};

pub struct NotifProp {
    pub id: &'static str,
}

#[derive(Clone, Debug)]
enum K {
    COpen { peer: usize, res: String },
    CClose { peer: usize },
    CValidate { peer: usize, accept: bool },
    CSend { peer: usize, mode: u8, period: u32, seq: u32, len: usize, res: String },
    EOpened { peer: usize, inbound: bool },
    EClosed { peer: usize },
    EOpenFailure { peer: usize, err: String },
    EValidate { peer: usize },
    ERecv { peer: usize, period: u32, mode: u8, seq: u32, len: usize, ok: bool },
    AEst { peer: usize },
    AClosed { peer: usize },
    HandleEnded,
    Killed,
    FinalReset,
    AsyncStuck { peer: usize },
}

#[derive(Clone, Debug)]
struct Rec {
    t: u64,
    node: usize,
    k: K,
}

type Log = Arc<Mutex<Vec<Rec>>>;

fn push(log: &Log, h: &Handle, node: usize, k: K) {
    let t = vnow().as_nanos() as u64;
    h.event(format!("n{node} {k:?}"));
    log.lock().unwrap().push(Rec { t, node, k });
}

#[derive(Debug)]
enum Cmd {
    Open { peer: usize },
    Close { peer: usize },
    Send { peer: usize, sync: bool, count: u32, size: usize },
    Stall { ms: u64 },
    SetVal { mode: String, delay_ms: u64 },
    /// re-open a stream the moment its close is reported (a common user pattern)
    SetReopen { on: bool },
    FinalReset,
}

const HDR: usize = 10;

fn make_notif(sender: usize, period: u32, mode: u8, seq: u32, size: usize) -> Vec<u8> {
    let mut v = Vec::with_capacity(size.max(HDR));
    v.push(sender as u8);
    v.extend_from_slice(&period.to_le_bytes());
    v.push(mode);
    v.extend_from_slice(&seq.to_le_bytes());
    while v.len() < size {
        v.push((seq as u8).wrapping_mul(7).wrapping_add(v.len() as u8));
    }
    v
}

fn parse_notif(b: &[u8]) -> Option<(usize, u32, u8, u32)> {
    if b.len() < HDR {
        return None;
    }
    Some((b[0] as usize, u32::from_le_bytes(b[1..5].try_into().unwrap()), b[5], u32::from_le_bytes(b[6..10].try_into().unwrap())))
}

fn peer_index(seed: u64, total: usize, p: &PeerId) -> usize {
    (1..=total).find(|i| &peer_id(seed, *i) == p).unwrap_or(0)
}

struct DriverCfg {
    reopen_on_close: bool,
    /// a user that wants its own stream: after rejecting a peer's inbound stream, and after an
    /// open failure, it asks again at once (at most three times per peer)
    persistent: bool,
    node: usize,
    seed: u64,
    total: usize,
    val_mode: String,
    val_delay_ms: u64,
}

fn spawn_driver(handle: &Handle, log: Log, cfg: DriverCfg, mut nh: NotificationHandle) -> UnboundedSender<Cmd> {
    let (tx, mut rx): (UnboundedSender<Cmd>, UnboundedReceiver<Cmd>) = unbounded_channel();
    let h = handle.clone();
    let i = cfg.node;
    handle.spawn(i, "notif-user", async move {
        let seed = cfg.seed;
        let total = cfg.total;
        let mut val_mode = cfg.val_mode;
        let mut val_delay = cfg.val_delay_ms;
        let mut vrng = Rng::fork(seed, &format!("val{i}"));
        // pending validation answers: (deadline, peer, accept)
        let mut answers: Vec<(tokio::time::Instant, usize, bool)> = Vec::new();
        let mut unanswered: BTreeSet<usize> = BTreeSet::new();
        let mut stall_until: Option<tokio::time::Instant> = None;
        // sender side: period per peer, seq per (peer, mode)
        let mut period: BTreeMap<usize, u32> = BTreeMap::new();
        let mut seqs: BTreeMap<(usize, u8), u32> = BTreeMap::new();
        let mut open_peers: BTreeSet<usize> = BTreeSet::new();
        let mut cmds_open = true;
        let mut reopen = cfg.reopen_on_close;
        let mut persistent = cfg.persistent;
        let mut retries: BTreeMap<usize, u32> = BTreeMap::new();
        loop {
            let now = tokio::time::Instant::now();
            if stall_until.is_some_and(|s| s <= now) {
                stall_until = None;
            }
            let next_answer = answers.iter().map(|a| a.0).min();
            let wake = match (next_answer, stall_until) {
                (Some(a), Some(s)) => Some(a.min(s)),
                (a, s) => a.or(s),
            };
            tokio::select! {
                biased;
                cmd = rx.recv(), if cmds_open => match cmd {
                    None => cmds_open = false,
                    Some(Cmd::Open { peer }) => {
                        let r = nh.open_substream(peer_id(seed, peer)).await;
                        push(&log, &h, i, K::COpen { peer, res: match &r { Ok(()) => "ok".into(), Err(e) => format!("{e:?}") } });
                    }
                    Some(Cmd::Close { peer }) => {
                        push(&log, &h, i, K::CClose { peer });
                        nh.close_substream(peer_id(seed, peer)).await;
                    }
                    Some(Cmd::Send { peer, sync, count, size }) => {
                        let mode = if sync { 0u8 } else { 1u8 };
                        let p = *period.get(&peer).unwrap_or(&0);
                        if !open_peers.contains(&peer) {
                            continue;
                        }
                        for _ in 0..count {
                            let s = *seqs.get(&(peer, mode)).unwrap_or(&0);
                            let payload = make_notif(i, p, mode, s, size);
                            let len = payload.len();
                            if sync {
                                let r = nh.send_sync_notification(peer_id(seed, peer), payload);
                                let ok = r.is_ok();
                                push(&log, &h, i, K::CSend { peer, mode, period: p, seq: s, len, res: match r { Ok(()) => "ok".into(), Err(e) => format!("{e:?}") } });
                                if ok {
                                    seqs.insert((peer, mode), s + 1);
                                } else {
                                    break;
                                }
                            } else {
                                // the asynchronous send waits for capacity; bound the wait so that a
                                // stuck send is observed instead of wedging the driver
                                let Some(sink) = nh.notification_sink(peer_id(seed, peer)) else { break };
                                match tokio::time::timeout(Duration::from_secs(40), sink.send_async_notification(payload)).await {
                                    Ok(Ok(())) => {
                                        push(&log, &h, i, K::CSend { peer, mode, period: p, seq: s, len, res: "ok".into() });
                                        seqs.insert((peer, mode), s + 1);
                                    }
                                    Ok(Err(e)) => {
                                        push(&log, &h, i, K::CSend { peer, mode, period: p, seq: s, len, res: format!("{e:?}") });
                                        break;
                                    }
                                    Err(_) => {
                                        push(&log, &h, i, K::AsyncStuck { peer });
                                        break;
                                    }
                                }
                            }
                        }
                    }
                    Some(Cmd::Stall { ms }) => {
                        stall_until = Some(tokio::time::Instant::now() + Duration::from_millis(ms));
                    }
                    Some(Cmd::SetVal { mode, delay_ms }) => {
                        val_mode = mode;
                        val_delay = delay_ms;
                    }
                    Some(Cmd::SetReopen { on }) => reopen = on,
                    Some(Cmd::FinalReset) => {
                        reopen = false;
                        persistent = false;
                        push(&log, &h, i, K::FinalReset);
                        stall_until = None;
                        val_mode = "accept".into();
                        val_delay = 0;
                        // answer everything that is still pending, then close every open stream
                        for (_, peer, _) in answers.drain(..) {
                            push(&log, &h, i, K::CValidate { peer, accept: false });
                            nh.send_validation_result(peer_id(seed, peer), ValidationResult::Reject);
                        }
                        for peer in std::mem::take(&mut unanswered) {
                            push(&log, &h, i, K::CValidate { peer, accept: false });
                            nh.send_validation_result(peer_id(seed, peer), ValidationResult::Reject);
                        }
                        for peer in open_peers.clone() {
                            push(&log, &h, i, K::CClose { peer });
                            nh.close_substream(peer_id(seed, peer)).await;
                        }
                    }
                },
                _ = async { tokio::time::sleep_until(wake.unwrap()).await }, if wake.is_some() => {
                    let now = tokio::time::Instant::now();
                    let mut k = 0;
                    while k < answers.len() {
                        if answers[k].0 <= now {
                            let (_, peer, accept) = answers.remove(k);
                            push(&log, &h, i, K::CValidate { peer, accept });
                            nh.send_validation_result(peer_id(seed, peer), if accept { ValidationResult::Accept } else { ValidationResult::Reject });
                        } else {
                            k += 1;
                        }
                    }
                }
                ev = nh.next(), if stall_until.is_none() => match ev {
                    None => { push(&log, &h, i, K::HandleEnded); break; }
                    Some(NotificationEvent::ValidateSubstream { peer, .. }) => {
                        let p = peer_index(seed, total, &peer);
                        push(&log, &h, i, K::EValidate { peer: p });
                        // a new validation request supersedes an unanswered older one
                        answers.retain(|a| a.1 != p);
                        unanswered.remove(&p);
                        let decision = match val_mode.as_str() {
                            "accept" => Some(true),
                            "reject" => Some(false),
                            "ignore" => None,
                            _ => match vrng.below(5) { 0 => None, 1 => Some(false), _ => Some(true) },
                        };
                        match decision {
                            None => { unanswered.insert(p); }
                            Some(accept) if val_delay == 0 => {
                                push(&log, &h, i, K::CValidate { peer: p, accept });
                                nh.send_validation_result(peer, if accept { ValidationResult::Accept } else { ValidationResult::Reject });
                                if !accept && persistent && *retries.entry(p).or_insert(0) < 3 {
                                    *retries.entry(p).or_insert(0) += 1;
                                    h.probe("notif-reopen-after-reject");
                                    let r = nh.open_substream(peer).await;
                                    push(&log, &h, i, K::COpen { peer: p, res: match &r { Ok(()) => "ok".into(), Err(e) => format!("{e:?}") } });
                                }
                            }
                            Some(accept) => answers.push((tokio::time::Instant::now() + Duration::from_millis(val_delay), p, accept)),
                        }
                    }
                    Some(NotificationEvent::NotificationStreamOpened { peer, direction, .. }) => {
                        let p = peer_index(seed, total, &peer);
                        *period.entry(p).or_insert(0) += 1;
                        seqs.insert((p, 0), 0);
                        seqs.insert((p, 1), 0);
                        open_peers.insert(p);
                        push(&log, &h, i, K::EOpened { peer: p, inbound: direction == Direction::Inbound });
                    }
                    Some(NotificationEvent::NotificationStreamClosed { peer }) => {
                        let p = peer_index(seed, total, &peer);
                        open_peers.remove(&p);
                        push(&log, &h, i, K::EClosed { peer: p });
                        if reopen {
                            let r = nh.open_substream(peer).await;
                            push(&log, &h, i, K::COpen { peer: p, res: match &r { Ok(()) => "ok".into(), Err(e) => format!("{e:?}") } });
                        }
                    }
                    Some(NotificationEvent::NotificationStreamOpenFailure { peer, error }) => {
                        let p = peer_index(seed, total, &peer);
                        push(&log, &h, i, K::EOpenFailure { peer: p, err: format!("{error:?}") });
                        if persistent && *retries.entry(p).or_insert(0) < 3 {
                            *retries.entry(p).or_insert(0) += 1;
                            h.probe("notif-reopen-after-failure");
                            let r = nh.open_substream(peer).await;
                            push(&log, &h, i, K::COpen { peer: p, res: match &r { Ok(()) => "ok".into(), Err(e) => format!("{e:?}") } });
                        }
                    }
                    Some(NotificationEvent::NotificationReceived { peer, notification }) => {
                        let p = peer_index(seed, total, &peer);
                        match parse_notif(&notification) {
                            Some((sender, period, mode, seq)) => {
                                let expect = make_notif(sender, period, mode, seq, notification.len());
                                let ok = expect[..] == notification[..] && sender == p;
                                push(&log, &h, i, K::ERecv { peer: p, period, mode, seq, len: notification.len(), ok });
                            }
                            None => {
                                h.event(format!("n{i} garbled notification bytes: {:02x?}", &notification[..notification.len().min(16)]));
                                push(&log, &h, i, K::ERecv { peer: p, period: 0, mode: 9, seq: 0, len: notification.len(), ok: false })
                            }
                        }
                    }
                },
            }
        }
    });
    tx
}

#[derive(Debug)]
enum AppCmd {
    Connect { to: usize },
}

fn spawn_app_loop(handle: &Handle, log: Log, seed: u64, total: usize, i: usize, mut l: Litep2p) -> UnboundedSender<AppCmd> {
    let (tx, mut rx): (UnboundedSender<AppCmd>, UnboundedReceiver<AppCmd>) = unbounded_channel();
    let h = handle.clone();
    handle.spawn(i, "litep2p-event-loop", async move {
        let mut open = true;
        loop {
            tokio::select! {
                biased;
                cmd = rx.recv(), if open => match cmd {
                    None => open = false,
                    Some(AppCmd::Connect { to }) => {
                        let r = l.dial_address(full_addr(seed, to)).await;
                        h.event(format!("n{i} dial_address(n{to}) -> {r:?}"));
                    }
                },
                ev = l.next_event() => match ev {
                    Some(Litep2pEvent::ConnectionEstablished { peer, .. }) => push(&log, &h, i, K::AEst { peer: peer_index(seed, total, &peer) }),
                    Some(Litep2pEvent::ConnectionClosed { peer, .. }) => push(&log, &h, i, K::AClosed { peer: peer_index(seed, total, &peer) }),
                    Some(_) => {}
                    None => break,
                }
            }
        }
    });
    tx
}

impl NotifProp {
    fn gen_ops(&self, rng: &mut Rng, n: usize, max_size: u64, tier: Tier) -> Vec<Value> {
        let mut ops = Vec::new();
        let span = *rng.pick(&[500u64, 4_000, 15_000, 40_000]);
        let nops = match tier {
            Tier::Quick => rng.range(3, 20),
            Tier::Thorough => rng.range(3, 60),
        };
        let other = |rng: &mut Rng, i: u64| {
            let mut j = 1 + rng.below(n as u64);
            if j == i {
                j = 1 + (i % n as u64);
            }
            j
        };
        if rng.chance(2, 3) {
            for i in 1..=n as u64 {
                for j in i + 1..=n as u64 {
                    if rng.chance(3, 4) {
                        ops.push(json!({"at_ms": rng.below(30), "op": "connect", "node": i, "to": j}));
                    }
                }
            }
        }
        let data_bias = self.id == "C12";
        // structured sessions: open first, then bursts of notifications, optionally close/reopen
        let sessions = if data_bias { rng.range(1, 3) } else { rng.below(2) };
        for _ in 0..sessions {
            let i = 1 + rng.below(n as u64);
            let j = other(rng, i);
            let t0 = rng.below(span / 2 + 1);
            ops.push(json!({"at_ms": t0, "op": "open", "node": i, "to": j}));
            let mut t = t0 + *rng.pick(&[300u64, 800, 2500]);
            for _ in 0..rng.range(1, 8) {
                let (from, to) = if rng.chance(2, 3) { (i, j) } else { (j, i) };
                let size = match rng.below(14) {
                    0 => max_size,
                    1 => max_size + 1,
                    2 => HDR as u64,
                    _ => rng.range(HDR as u64, max_size.min(400)),
                };
                let count = match rng.below(5) {
                    0 => rng.range(20, 150),
                    1 => rng.range(5, 20),
                    _ => rng.range(1, 5),
                };
                ops.push(json!({"at_ms": t, "op": "send", "node": from, "to": to, "sync": rng.chance(1, 2), "count": count, "size": size}));
                if rng.chance(1, 6) {
                    ops.push(json!({"at_ms": t + rng.below(5), "op": "stall", "node": to, "ms": *rng.pick(&[200u64, 3000, 9000])}));
                }
                if rng.chance(1, 8) {
                    ops.push(json!({"at_ms": t + rng.below(20), "op": "close", "node": if rng.chance(1, 2) { i } else { j }, "to": if rng.chance(1, 2) { j } else { i }}));
                    ops.push(json!({"at_ms": t + 200 + rng.below(2000), "op": "open", "node": i, "to": j}));
                    t += 2500;
                }
                t += *rng.pick(&[1u64, 5, 40, 400, 2000]);
            }
        }
        for _ in 0..nops {
            let at = rng.below(span);
            let i = 1 + rng.below(n as u64);
            let j = if rng.chance(1, 15) { n as u64 + 1 } else { other(rng, i) };
            let r = rng.below(100);
            let (w_open, w_close, w_send) = if data_bias { (25, 8, 55) } else { (45, 20, 15) };
            if r < w_open {
                if rng.chance(1, 4) && j <= n as u64 {
                    // simultaneous open from both sides
                    ops.push(json!({"at_ms": at, "op": "open", "node": i, "to": j}));
                    ops.push(json!({"at_ms": at + rng.below(3), "op": "open", "node": j, "to": i}));
                } else {
                    ops.push(json!({"at_ms": at, "op": "open", "node": i, "to": j}));
                }
            } else if r < w_open + w_close {
                ops.push(json!({"at_ms": at, "op": "close", "node": i, "to": j}));
            } else if r < w_open + w_close + w_send {
                let size = match rng.below(12) {
                    0 => max_size,
                    1 => max_size + 1,
                    2 => HDR as u64,
                    3 => max_size.saturating_sub(1).max(HDR as u64),
                    _ => rng.range(HDR as u64, max_size.min(600)),
                };
                let count = match rng.below(4) {
                    0 => 1,
                    1 => rng.range(2, 10),
                    2 => rng.range(10, 80),
                    _ => rng.range(1, 5),
                };
                ops.push(json!({"at_ms": at, "op": "send", "node": i, "to": j, "sync": rng.chance(1, 2), "count": count, "size": size}));
            } else if r < w_open + w_close + w_send + 6 {
                ops.push(json!({"at_ms": at, "op": "stall", "node": i, "ms": *rng.pick(&[50u64, 1000, 6000, 12_000])}));
            } else if r < w_open + w_close + w_send + 10 {
                ops.push(json!({"at_ms": at, "op": "set_val", "node": i, "mode": *rng.pick(&["accept", "reject", "ignore", "mixed"]), "delay_ms": *rng.pick(&[0u64, 30, 2000, 6000, 11_000])}));
            } else {
                ops.push(json!({"at_ms": at, "op": "connect", "node": i, "to": j}));
            }
        }
        ops.sort_by_key(|o| o["at_ms"].as_u64().unwrap_or(0));
        ops
    }
}

/// A live peer (ghost n+1) that registers the notification protocol's name as a raw user protocol
/// and plays the two-substream handshake badly.
struct RogueNotif {
    behaviour: String,
    max_size: usize,
    handle: Handle,
    /// bytes the rogue may still put on the wire (keeps runs over 1-byte carriers inside the budget)
    byte_budget: usize,
    /// the rogue's own negotiation starts are logged like a user's open requests, so that the
    /// oracle knows when "no negotiation in progress" does not hold towards it
    log: Log,
    seed: u64,
    total: usize,
    me: usize,
}

fn uvarint(mut n: u64) -> Vec<u8> {
    let mut v = Vec::new();
    loop {
        let b = (n & 0x7f) as u8;
        n >>= 7;
        if n == 0 {
            v.push(b);
            break;
        }
        v.push(b | 0x80);
    }
    v
}

#[async_trait::async_trait]
impl UserProtocol for RogueNotif {
    fn protocol(&self) -> ProtocolName {
        ProtocolName::from("/vsim/notif/1")
    }
    fn codec(&self) -> ProtocolCodec {
        ProtocolCodec::Unspecified
    }
    async fn run(mut self: Box<Self>, mut service: TransportService) -> litep2p::Result<()> {
        use tokio::io::{AsyncReadExt, AsyncWriteExt};
        let mut held: Vec<Substream> = Vec::new();
        let hs = [uvarint(2), vec![0xee, 0xbb]].concat();
        let full = self.behaviour.starts_with("full");
        while let Some(ev) = futures::StreamExt::next(&mut service).await {
            match ev {
                TransportEvent::ConnectionEstablished { peer, .. } if self.behaviour == "initiate_silent" => {
                    if service.open_substream(peer).is_ok() {
                        push(&self.log, &self.handle, self.me, K::COpen { peer: peer_index(self.seed, self.total, &peer), res: "ok".into() });
                    }
                }
                TransportEvent::SubstreamOpened { mut substream, peer, direction, .. } => {
                    self.handle.probe(&format!("rogue-notif:{}", self.behaviour));
                    let mut buf = [0u8; 64];
                    match direction {
                        SubDirection::Inbound => {
                            // the honest side sent its handshake first
                            let _ = tokio::time::timeout(Duration::from_secs(2), substream.read(&mut buf)).await;
                            match self.behaviour.as_str() {
                                "no_reply" => {}
                                "reply_close" => {
                                    let _ = substream.write_all(&hs).await;
                                    let _ = substream.flush().await;
                                    let _ = substream.shutdown().await;
                                    continue;
                                }
                                _ => {
                                    let _ = substream.write_all(&hs).await;
                                    let _ = substream.flush().await;
                                    if full && service.open_substream(peer).is_ok() {
                                        push(&self.log, &self.handle, self.me, K::COpen { peer: peer_index(self.seed, self.total, &peer), res: "ok".into() });
                                    }
                                }
                            }
                        }
                        SubDirection::Outbound(_) => {
                            let _ = substream.write_all(&hs).await;
                            let _ = substream.flush().await;
                            if self.behaviour != "initiate_silent" {
                                let _ = tokio::time::timeout(Duration::from_secs(12), substream.read(&mut buf)).await;
                                let bytes: Option<Vec<u8>> = match self.behaviour.as_str() {
                                    // a frame beyond the configured maximum, delivered completely
                                    "full_oversize" => Some([uvarint(self.max_size as u64 + 1), vec![5u8; self.max_size + 1]].concat()),
                                    "full_badvarint" => Some([vec![0x80u8; 11], vec![1, 2, 3]].concat()),
                                    "full_close" => {
                                        let _ = substream.shutdown().await;
                                        continue;
                                    }
                                    _ => None,
                                };
                                if let Some(b) = bytes {
                                    if b.len() <= self.byte_budget {
                                        self.byte_budget -= b.len();
                                        let _ = substream.write_all(&b).await;
                                        let _ = substream.flush().await;
                                    }
                                }
                            }
                        }
                    }
                    held.push(substream);
                    if held.len() > 64 {
                        held.remove(0);
                    }
                }
                _ => {}
            }
        }
        Ok(())
    }
}

const SETTLE1_MS: u64 = 50_000;
const SETTLE2_MS: u64 = 30_000;
const SETTLE3_MS: u64 = 50_000;

impl Prop for NotifProp {
    fn id(&self) -> &'static str {
        self.id
    }

    fn budget(&self, tier: Tier) -> Budget {
        match tier {
            Tier::Quick => Budget { runs: 10_000, wall_s: 60.0 },
            Tier::Thorough => Budget { runs: 400_000, wall_s: 540.0 },
        }
    }

    fn describe(&self) -> Describe {
        Describe {
            level: "exploration",
            rule: "each case = one seeded run of 2-3 complete litep2p nodes with a notification protocol on SimNet: in a third of the runs ghost n+1 is a live peer that registers the protocol name as a raw user protocol and plays the two-substream handshake badly (no reply / reply only / reply and close / complete then silence, oversize frame, unterminated varint or close / initiate and go silent), a quarter of the commands then target it; materialised user commands on every endpoint (open, close, simultaneous opens, sync/async notification bursts, reader stalls, validation-policy changes), fault plan (resets, half-closes, byte-offset cuts and single-bit corruption in flight, partitions, refused / black-holed / slow connects, node kill with reset or silent vanish, crash + restart with the same identity, process stalls), channel sizes, auto-accept, scheduler kind and knobs, followed by a fault-free final phase that resets the users and opens a canary stream between every pair; non-trivial = scheduler had >=1 choice point; distinct = distinct trace hash".into(),
            real: vec!["Litep2p", "TransportManager", "TcpTransport/TcpConnection", "WebSocketTransport/WebSocketConnection + tokio-tungstenite (runs with the second transport)", "multistream-select", "Noise", "yamux", "NotificationProtocol + HandshakeService + Connection + NotificationHandle/NotificationSink", "TransportService", "substream framing"],
            stub: vec!["socket layer (SimNet)", "clock (incl. futures_timer::Delay via hook H2)", "task scheduler (seeded)", "HashMap seeds"],
            assumptions: vec![
                "pre-emption granularity is the task poll",
                "SimNet: reliable ordered streams",
                "sequences are keyed by the sender's open period, so a notification delivered late (inside the receiver's next open period) is not mistaken for a loss",
                "the response rule is asserted only for open requests issued while the user had nothing open, pending or under validation for that peer",
            ],
        }
    }

    fn gen(&self, seed: u64, tier: Tier) -> Value {
        let mut rng = Rng::fork(seed, &format!("notif-gen-{}", self.id));
        let n = rng.range(2, 3) as usize;
        let max_size = *rng.pick(&[64u64, 1024, 70_000]);
        let mut ops = self.gen_ops(&mut rng, n, max_size, tier);
        let last = ops.iter().map(|o| o["at_ms"].as_u64().unwrap_or(0)).max().unwrap_or(0);
        let mut faults = Vec::new();
        if !rng.chance(2, 5) {
            faults = nodesim::gen_faults(&mut rng, n, last + 2000, 3, true);
            faults.extend(nodesim::gen_connect_faults(&mut rng, 1));
        }
        faults.extend(nodesim::gen_freeze_faults(seed, n, last + 2000));
        nodesim::add_restarts(seed, &mut faults);
        faults.extend(nodesim::gen_flip_faults(seed));
        // flood (C12, 1 run in 12, independent stream): more notifications than the receiving
        // handle's queue holds (4096) are sent while the receiving user does not read
        if self.id == "C12" {
            let mut r = Rng::fork(seed, "c12-flood");
            if r.chance(1, 12) {
                let (i, j) = if r.chance(1, 2) { (1u64, 2u64) } else { (2, 1) };
                let t0 = 200 + r.below(500);
                ops.push(json!({"at_ms": t0, "op": "open", "node": i, "to": j}));
                ops.push(json!({"at_ms": t0 + 1500, "op": "stall", "node": j, "ms": *r.pick(&[4000u64, 9000])}));
                ops.push(json!({"at_ms": t0 + 1510, "op": "send", "node": i, "to": j, "sync": false, "count": r.range(4200, 5200), "size": r.range(HDR as u64, 24)}));
                ops.sort_by_key(|o| o["at_ms"].as_u64().unwrap_or(0));
            }
        }
        let mut per_node = Vec::new();
        for _ in 0..n {
            per_node.push(json!({
                "auto_accept": rng.chance(1, 3),
                "should_dial": rng.chance(5, 6),
                "sync_size": *rng.pick(&[1u64, 2, 8, 64]),
                "async_size": *rng.pick(&[1u64, 4, 8]),
                "reopen_on_close": rng.chance(1, 4),
                "val_mode": *rng.pick(&["accept", "accept", "accept", "mixed", "reject", "ignore"]),
                "val_delay_ms": *rng.pick(&[0u64, 0, 20, 1500, 6000]),
            }));
        }
        let mut two_conn = false;
        {
            // two overlapping connections (both applications dial each other by address at the same
            // instant), a stream opened and used over them, then one or both of the connections
            // between the two nodes are lost, with or without a stall of the peer (independent
            // stream of the seed)
            // (thorough tier only: at the quick tier the extra operations displaced cases that two
            // seeded changes, C11-2 and C11-6, depend on)
            let mut r = Rng::fork(seed, "notif-two-connections");
            if tier == Tier::Thorough && r.chance(1, 8) {
                two_conn = true;
                let (a, b) = if r.chance(1, 2) { (1u64, 2u64) } else { (2, 1) };
                ops.push(json!({"at_ms": 20, "op": "connect", "node": a, "to": b}));
                ops.push(json!({"at_ms": 20 + r.below(3), "op": "connect", "node": b, "to": a}));
                let t0 = 600 + r.below(600);
                ops.push(json!({"at_ms": t0, "op": "open", "node": a, "to": b}));
                ops.push(json!({"at_ms": t0 + 400, "op": "send", "node": a, "to": b, "sync": r.chance(1, 2), "count": r.range(1, 20), "size": r.range(HDR as u64, 40)}));
                let t1 = t0 + 500 + r.below(500);
                if r.chance(1, 2) {
                    faults.push(json!({"at_ms": t1, "kind": "freeze", "node": b, "heal_after_ms": *r.pick(&[500u64, 3_000, 20_000])}));
                }
                ops.push(json!({"at_ms": t1 + 20, "op": "send", "node": a, "to": b, "sync": r.chance(1, 2), "count": r.range(1, 20), "size": r.range(HDR as u64, 40)}));
                let t2 = t1 + 40 + r.below(300);
                faults.push(json!({"at_ms": t2, "kind": "reset_pair", "a": a, "b": b, "k": r.below(2)}));
                match r.below(3) {
                    0 => faults.push(json!({"at_ms": t2 + r.below(3), "kind": "reset_pair", "a": a, "b": b, "k": 0})),
                    1 => faults.push(json!({"at_ms": t2 + 100 + r.below(2_000), "kind": "reset_pair", "a": a, "b": b, "k": 0})),
                    _ => {}
                }
                // and the stream is asked for again afterwards
                ops.push(json!({"at_ms": t2 + 300 + r.below(3_000), "op": "open", "node": if r.chance(1, 2) { a } else { b }, "to": if r.chance(1, 2) { b } else { a }}));
                ops.sort_by_key(|o| o["at_ms"].as_u64().unwrap_or(0));
                faults.sort_by_key(|f| f["at_ms"].as_u64().unwrap_or(0));
            }
        }
        {
            // persistent users (independent stream of the seed): a quarter of the nodes ask again
            // at once after rejecting a peer's inbound stream and after an open failure
            let mut r = Rng::fork(seed, "notif-persistent");
            for pn in per_node.iter_mut() {
                if r.chance(1, 4) {
                    pn["persistent"] = json!(true);
                }
            }
        }
        let sched = SchedKind::gen(&mut rng, 5000);
        let net = NetKnobs::gen(&mut rng);
        // keep the run inside the poll budget: with a carrier that moves 1-7 bytes per step the
        // total volume is bounded (about 500 000 steps), later sends are thinned out
        let mut allowed = net["max_chunk"].as_u64().unwrap_or(65536).saturating_mul(500_000);
        for o in ops.iter_mut() {
            if o["op"] == "send" {
                let size = o["size"].as_u64().unwrap_or(1).max(1);
                let count = o["count"].as_u64().unwrap_or(1);
                let fit = (allowed / size).max(1).min(count);
                if fit < count {
                    o["count"] = json!(fit);
                }
                allowed = allowed.saturating_sub(fit * size);
            }
        }
        // ghost n+1 is, in a third of the runs, a live peer that plays the notification handshake
        // badly; then a quarter of the opens / closes / sends go to it
        let rogue = {
            let mut r = Rng::fork(seed, "notif-rogue");
            if r.chance(1, 3) {
                for o in ops.iter_mut() {
                    if matches!(o["op"].as_str(), Some("open") | Some("close") | Some("send") | Some("connect")) && r.chance(1, 4) {
                        o["to"] = json!(n as u64 + 1);
                    }
                }
                json!(*r.pick(&["no_reply", "reply_only", "reply_close", "full_silent", "full_oversize", "full_badvarint", "full_close", "initiate_silent"]))
            } else {
                Value::Null
            }
        };
        let mut node_knobs = gen_node_knobs(&mut rng);
        if two_conn && node_knobs["keep_alive_ms"].as_u64().unwrap_or(5000) < 5000 {
            // the two connections must still be there when the stream is opened
            node_knobs["keep_alive_ms"] = json!(5000);
        }
        json!({
            "property": self.id,
            "seed": seed,
            "nodes": n,
            "rogue": rogue,
            "sched": sched,
            "net": net,
            "node_knobs": node_knobs,
            "max_size": max_size,
            "per_node": per_node,
            "ops": ops,
            "faults": faults,
        })
    }

    fn run(&self, case: &Value, verbose: bool) -> RunOutput {
        let case = case.clone();
        let my_prefix = format!("{}:", self.id.to_lowercase());
        let seed = case["seed"].as_u64().unwrap_or(0);
        let sched = SchedKind::from_json(&case["sched"]);
        let ops: Vec<Value> = case["ops"].as_array().cloned().unwrap_or_default();
        let faults: Vec<Value> = case["faults"].as_array().cloned().unwrap_or_default();
        let knobs = case["node_knobs"].clone();
        let n = case["nodes"].as_u64().unwrap_or(2) as usize;
        let total = n + 1;
        let max_size = case["max_size"].as_u64().unwrap_or(1024) as usize;
        let per_node: Vec<Value> = case["per_node"].as_array().cloned().unwrap_or_default();
        let last_ms = ops.iter().map(|o| o["at_ms"].as_u64().unwrap_or(0) + o["ms"].as_u64().unwrap_or(0)).max().unwrap_or(0).max(nodesim::last_fault_ms(&faults));
        let t1 = last_ms + SETTLE1_MS;
        let t2 = t1 + SETTLE2_MS;
        let horizon_ms = t2 + SETTLE3_MS;
        run_sim(seed, sched, Duration::from_millis(horizon_ms), 12_000_000, verbose, move |handle: Handle| {
            let net = SimNet::new(handle.clone(), seed, NetKnobs::from_json(&case["net"]));
            net.install();
            nodesim::install_static_faults(&net, &faults);
            let log: Log = Arc::new(Mutex::new(Vec::new()));
            let mut app_tx: Vec<Option<UnboundedSender<AppCmd>>> = vec![None];
            let mut drv_tx: Vec<Option<UnboundedSender<Cmd>>> = vec![None];
            let mut should_dial: Vec<bool> = vec![false];
            let mut auto_accept: Vec<bool> = vec![false];
            for i in 1..=n {
                node::CURRENT_NODE.with(|c| c.set(i));
                let pn = per_node.get(i - 1).cloned().unwrap_or(json!({}));
                let aa = pn["auto_accept"].as_bool().unwrap_or(false);
                let sd = pn["should_dial"].as_bool().unwrap_or(true);
                let (nc, nh) = NotifBuilder::new(ProtocolName::from("/vsim/notif/1"))
                    .with_max_size(max_size)
                    .with_handshake(vec![i as u8, 0xaa])
                    .with_auto_accept_inbound(aa)
                    .with_sync_channel_size(pn["sync_size"].as_u64().unwrap_or(8) as usize)
                    .with_async_channel_size(pn["async_size"].as_u64().unwrap_or(4) as usize)
                    .with_dialing_enabled(sd)
                    .build();
                let cfg = base_config(&handle, seed, i, &knobs).with_notification_protocol(nc).build();
                let mut l = match Litep2p::new(cfg) {
                    Ok(l) => l,
                    Err(e) => {
                        handle.violation("harness:litep2p-new", format!("{e:?}"));
                        return Box::new(|| {});
                    }
                };
                for j in 1..=total {
                    if j != i {
                        l.add_known_address(peer_id(seed, j), std::iter::once(full_addr(seed, j)));
                    }
                }
                app_tx.push(Some(spawn_app_loop(&handle, log.clone(), seed, total, i, l)));
                drv_tx.push(Some(spawn_driver(
                    &handle,
                    log.clone(),
                    DriverCfg { reopen_on_close: pn["reopen_on_close"].as_bool().unwrap_or(false), persistent: pn["persistent"].as_bool().unwrap_or(false), node: i, seed, total, val_mode: pn["val_mode"].as_str().unwrap_or("accept").to_string(), val_delay_ms: pn["val_delay_ms"].as_u64().unwrap_or(0) },
                    nh,
                )));
                should_dial.push(sd);
                auto_accept.push(aa);
            }
            if let Some(behaviour) = case["rogue"].as_str() {
                let g = n + 1;
                node::CURRENT_NODE.with(|c| c.set(g));
                let cfg = base_config(&handle, seed, g, &knobs).with_user_protocol(Box::new(RogueNotif { behaviour: behaviour.to_string(), max_size, handle: handle.clone(), byte_budget: (case["net"]["max_chunk"].as_u64().unwrap_or(65536) as usize).saturating_mul(200_000), log: log.clone(), seed, total, me: g })).build();
                match Litep2p::new(cfg) {
                    Ok(mut l) => {
                        handle.spawn(g, "rogue-event-loop", async move { while l.next_event().await.is_some() {} });
                    }
                    Err(e) => {
                        handle.violation("harness:litep2p-new", format!("rogue: {e:?}"));
                        return Box::new(|| {});
                    }
                }
            }
            node::CURRENT_NODE.with(|c| c.set(0));
            let dead: Arc<Mutex<BTreeMap<usize, bool>>> = Arc::new(Mutex::new(BTreeMap::new()));
            {
                let dead = dead.clone();
                let log = log.clone();
                let h = handle.clone();
                // a restarted node (same identity and address, no memory): environment for the
                // survivors. It accepts inbound streams, dials every other node and never sends, so
                // the (period, sequence) numbering of the first incarnation is never repeated.
                let restart: nodesim::RestartFn = {
                    let (handle, log, knobs) = (handle.clone(), log.clone(), knobs.clone());
                    let keep: Arc<Mutex<Vec<(UnboundedSender<AppCmd>, UnboundedSender<Cmd>)>>> = Arc::new(Mutex::new(Vec::new()));
                    Arc::new(move |i: usize| {
                        if i < 1 || i > n {
                            return;
                        }
                        let prev = node::CURRENT_NODE.with(|c| c.replace(i));
                        let (nc, nh) = NotifBuilder::new(ProtocolName::from("/vsim/notif/1"))
                            .with_max_size(max_size)
                            .with_handshake(vec![i as u8, 0xbb])
                            .with_auto_accept_inbound(true)
                            .with_sync_channel_size(8)
                            .with_async_channel_size(8)
                            .with_dialing_enabled(true)
                            .build();
                        let cfg = base_config(&handle, seed, i, &knobs).with_notification_protocol(nc).build();
                        match Litep2p::new(cfg) {
                            Ok(mut l) => {
                                for j in 1..=n {
                                    if j != i {
                                        l.add_known_address(peer_id(seed, j), std::iter::once(full_addr(seed, j)));
                                    }
                                }
                                handle.event(format!("n{i} restarted"));
                                handle.probe("node-restarted");
                                let a = spawn_app_loop(&handle, log.clone(), seed, total, i, l);
                                let d = spawn_driver(&handle, log.clone(), DriverCfg { reopen_on_close: false, persistent: false, node: i, seed, total, val_mode: "accept".to_string(), val_delay_ms: 0 }, nh);
                                for j in 1..=n {
                                    if j != i {
                                        let _ = d.send(Cmd::Open { peer: j });
                                    }
                                }
                                keep.lock().unwrap().push((a, d));
                            }
                            Err(e) => handle.event(format!("n{i} restart failed: {e:?}")),
                        }
                        node::CURRENT_NODE.with(|c| c.set(prev));
                    })
                };
                nodesim::spawn_fault_driver_ex(&handle, &net, &faults, Some(Arc::new(move |node, vanish| {
                    if node >= 1 && node <= n {
                        let mut d = dead.lock().unwrap();
                        match d.get(&node).cloned() {
                            None => {
                                d.insert(node, vanish);
                                drop(d);
                                push(&log, &h, node, K::Killed);
                            }
                            // a later incarnation is killed: it counts as vanished if any of its
                            // deaths was silent (a survivor may still hold that connection)
                            Some(v) => {
                                d.insert(node, v || vanish);
                            }
                        }
                    }
                })), Some(restart));
            }
            {
                let h = handle.clone();
                let dead = dead.clone();
                let net2 = net.clone();
                let ops = ops.clone();
                handle.spawn(0, "ops-driver", async move {
                    let start = tokio::time::Instant::now();
                    for o in ops {
                        tokio::time::sleep_until(start + Duration::from_millis(o["at_ms"].as_u64().unwrap_or(0))).await;
                        let i = o["node"].as_u64().unwrap_or(1) as usize;
                        if i == 0 || i > n || dead.lock().unwrap().contains_key(&i) {
                            continue;
                        }
                        let j = (o["to"].as_u64().unwrap_or(1) as usize).clamp(1, total);
                        let Some(tx) = &drv_tx[i] else { continue };
                        match o["op"].as_str().unwrap_or("") {
                            "connect" => {
                                if j != i {
                                    if let Some(a) = &app_tx[i] {
                                        let _ = a.send(AppCmd::Connect { to: j });
                                    }
                                }
                            }
                            "open" if j != i => {
                                let _ = tx.send(Cmd::Open { peer: j });
                            }
                            "close" if j != i => {
                                let _ = tx.send(Cmd::Close { peer: j });
                            }
                            "send" if j != i => {
                                let _ = tx.send(Cmd::Send { peer: j, sync: o["sync"].as_bool().unwrap_or(true), count: o["count"].as_u64().unwrap_or(1) as u32, size: o["size"].as_u64().unwrap_or(HDR as u64) as usize });
                            }
                            "stall" => {
                                let _ = tx.send(Cmd::Stall { ms: o["ms"].as_u64().unwrap_or(100) });
                            }
                            "set_val" => {
                                let _ = tx.send(Cmd::SetVal { mode: o["mode"].as_str().unwrap_or("accept").to_string(), delay_ms: o["delay_ms"].as_u64().unwrap_or(0) });
                            }
                            _ => {}
                        }
                    }
                    // final phase 1: reset every user
                    tokio::time::sleep_until(start + Duration::from_millis(t1)).await;
                    h.event("final phase: reset");
                    net2.clear_static_faults();
                    for i in 1..=n {
                        if dead.lock().unwrap().contains_key(&i) {
                            continue;
                        }
                        if let Some(tx) = &drv_tx[i] {
                            let _ = tx.send(Cmd::FinalReset);
                        }
                    }
                    // final phase 2: canary streams
                    tokio::time::sleep_until(start + Duration::from_millis(t2)).await;
                    h.event("final phase: canary");
                    for i in 1..=n {
                        for j in i + 1..=n {
                            if dead.lock().unwrap().contains_key(&i) || dead.lock().unwrap().contains_key(&j) {
                                continue;
                            }
                            if let Some(tx) = &drv_tx[i] {
                                let _ = tx.send(Cmd::Open { peer: j });
                            }
                        }
                    }
                });
            }
            let h = handle.clone();
            Box::new(move || {
                let log = log.lock().unwrap().clone();
                let dead = dead.lock().unwrap().clone();
                let table = net.conn_table();
                let end_ns = vnow().as_nanos() as u64;
                let freezes: Vec<(usize, u64, u64)> = faults.iter().filter(|f| f["kind"] == "freeze").map(|f| {
                    let s = f["at_ms"].as_u64().unwrap_or(0) * 1_000_000;
                    (f["node"].as_u64().unwrap_or(0) as usize, s, s + f["heal_after_ms"].as_u64().unwrap_or(0) * 1_000_000)
                }).collect();
                let partitions: Vec<(usize, usize, u64, u64)> = faults.iter().filter(|f| f["kind"] == "partition").map(|f| {
                    let s = f["at_ms"].as_u64().unwrap_or(0) * 1_000_000;
                    (f["a"].as_u64().unwrap_or(0) as usize, f["b"].as_u64().unwrap_or(0) as usize, s, s + f["heal_after_ms"].as_u64().unwrap_or(0) * 1_000_000)
                }).collect();
                let ctx = Ctx { partitions: &partitions, log: &log, dead: &dead, table: &table, n, end_ns, t1_ns: t1 * 1_000_000, t2_ns: t2 * 1_000_000, max_size, should_dial: &should_dial, auto_accept: &auto_accept, freezes: &freezes, rogue: if case["rogue"].is_string() { Some(n + 1) } else { None } };
                let vs = ctx.check();
                if let Some((class, detail)) = vs.into_iter().find(|(c, _)| c.starts_with(&my_prefix)) {
                    h.violation(class, detail);
                }
                let recv = log.iter().filter(|r| matches!(r.k, K::ERecv { .. })).count() as u64;
                let opened = log.iter().filter(|r| matches!(r.k, K::EOpened { .. })).count() as u64;
                h.probe_n("notifications-received", recv);
                h.probe_n("streams-opened", opened);
                h.probe_n("open-failures", log.iter().filter(|r| matches!(r.k, K::EOpenFailure { .. })).count() as u64);
                h.probe_n("validations", log.iter().filter(|r| matches!(r.k, K::EValidate { .. })).count() as u64);
                h.probe_n("sync-clogged", log.iter().filter(|r| matches!(&r.k, K::CSend { res, .. } if res.contains("Clogged"))).count() as u64);
            })
        })
    }
}

struct Ctx<'a> {
    log: &'a [Rec],
    dead: &'a BTreeMap<usize, bool>,
    table: &'a [(usize, std::net::SocketAddr, std::net::SocketAddr, Option<u64>, u64)],
    n: usize,
    end_ns: u64,
    t1_ns: u64,
    t2_ns: u64,
    max_size: usize,
    should_dial: &'a [bool],
    auto_accept: &'a [bool],
    /// process stalls of the plan: (node, start ns, end ns)
    freezes: &'a [(usize, u64, u64)],
    /// partitions of the plan: (host a, host b, start ns, heal ns)
    partitions: &'a [(usize, usize, u64, u64)],
    /// index of the rogue notification peer, if the run has one
    rogue: Option<usize>,
}

impl<'a> Ctx<'a> {
    /// was `node` stalled at some instant of [from, to]?
    fn stalled_within(&self, node: usize, from: u64, to: u64) -> bool {
        self.freezes.iter().any(|f| f.0 == node && f.1 <= to && f.2 >= from)
    }

    fn alive(&self, i: usize) -> bool {
        i >= 1 && i <= self.n && !self.dead.contains_key(&i)
    }

    fn conns_between(&self, i: usize, j: usize) -> Vec<&(usize, std::net::SocketAddr, std::net::SocketAddr, Option<u64>, u64)> {
        self.table.iter().filter(|c| (c.1.ip() == node_ip(i) && c.2.ip() == node_ip(j)) || (c.1.ip() == node_ip(j) && c.2.ip() == node_ip(i))).collect()
    }

    fn check(&self) -> Vec<(String, String)> {
        let mut v = Vec::new();
        for i in 1..=self.n {
            let killed_at = self.log.iter().find(|r| r.node == i && matches!(r.k, K::Killed)).map(|r| r.t);
            let evs: Vec<&Rec> = self.log.iter().filter(|r| r.node == i && killed_at.map_or(true, |k| r.t <= k)).collect();
            for j in 1..=self.n + 1 {
                if j != i {
                    self.check_pair(i, j, &evs, &mut v);
                }
            }
            self.check_data(i, &evs, &mut v);
        }
        v
    }

    /// C11: event grammar and response rule for node `i` towards peer `j`.
    fn check_pair(&self, i: usize, j: usize, evs: &[&Rec], v: &mut Vec<(String, String)>) {
        let ts = |t: u64| format!("{:.3}s", t as f64 / 1e9);
        let mut open = false;
        // Commands and events are asynchronous: a command may be issued before the user has read
        // events that were already queued. Requests are therefore tracked as credits which answers
        // consume; a stale credit only makes the oracle weaker, never wrong.
        let mut open_credit: u32 = 0; // accepted open_substream calls not yet answered
        let mut accept_credit: u32 = 0; // accepted validations not yet answered
        let mut pending_validation = false; // ValidateSubstream received, not answered yet
        // (time of request, answered?) for open requests issued while idle
        let mut idle_requests: Vec<(u64, bool)> = Vec::new();
        // close_substream issued while the user sees the stream open: (time, closed since?)
        let mut close_requests: Vec<(u64, bool)> = Vec::new();
        for r in evs.iter() {
            match &r.k {
                K::COpen { peer, res } if *peer == j => {
                    if res != "ok" {
                        continue;
                    }
                    // a negotiation started by the remote user may be in progress without the local
                    // user knowing (its handshake is still being read): the premise "no negotiation
                    // in progress" then does not hold, so such requests are not counted as idle
                    // (a process stall on either side stretches "recent" by its length)
                    let stretch: u64 = self.freezes.iter().filter(|f| (f.0 == i || f.0 == j) && f.1 <= r.t).map(|f| f.2 - f.1).max().unwrap_or(0);
                    let remote_recent = self.log.iter().any(|q| q.node == j && q.t <= r.t && q.t + 30_000_000_000 + stretch >= r.t && matches!(&q.k, K::COpen { peer, res } if *peer == i && res == "ok"));
                    let idle = !open && open_credit == 0 && accept_credit == 0 && !pending_validation && !remote_recent;
                    if idle {
                        idle_requests.push((r.t, false));
                    }
                    open_credit += 1;
                }
                K::CValidate { peer, accept } if *peer == j => {
                    // Answers are matched to requests by peer only: an acceptance given (late) for
                    // a request the user saw earlier may be applied by the protocol to a newer
                    // request the user has not read yet. Every acceptance is therefore a credit.
                    if *accept && !pending_validation {
                        accept_credit += 1;
                    }
                    if pending_validation {
                        pending_validation = false;
                        if *accept {
                            accept_credit += 1;
                        } else if let Some(l) = idle_requests.last_mut() {
                            // the user's own rejection concludes whatever was requested
                            l.1 = true;
                        }
                    }
                }
                K::EValidate { peer } if *peer == j => {
                    if open {
                        v.push(("c11:validate-while-open".into(), format!("node {i}: ValidateSubstream from n{j} at {} while the stream to that peer is open", ts(r.t))));
                    }
                    pending_validation = true;
                    // an inbound negotiation supersedes an unanswered open request (see DESIGN)
                    if let Some(l) = idle_requests.last_mut() {
                        l.1 = true;
                    }
                }
                K::EOpened { peer, inbound } if *peer == j => {
                    if open {
                        v.push(("c11:opened-twice".into(), format!("node {i}: NotificationStreamOpened for n{j} at {} while already open", ts(r.t))));
                    }
                    if *inbound {
                        if accept_credit == 0 {
                            v.push(("c11:inbound-opened-without-accept".into(), format!("node {i}: inbound stream from n{j} reported open at {} although the user had not accepted a validation for it", ts(r.t))));
                        }
                        accept_credit = accept_credit.saturating_sub(1);
                    } else {
                        if open_credit == 0 && accept_credit == 0 {
                            v.push(("c11:outbound-opened-without-request".into(), format!("node {i}: outbound stream to n{j} reported open at {} although the user had neither requested nor accepted it", ts(r.t))));
                        }
                        if open_credit > 0 {
                            open_credit -= 1;
                        } else {
                            accept_credit = accept_credit.saturating_sub(1);
                        }
                    }
                    open = true;
                    pending_validation = false;
                    if let Some(l) = idle_requests.last_mut() {
                        l.1 = true;
                    }
                }
                K::CClose { peer } if *peer == j => {
                    if open {
                        close_requests.push((r.t, false));
                    }
                }
                K::EClosed { peer } if *peer == j => {
                    for c in close_requests.iter_mut() {
                        c.1 = true;
                    }
                    if !open {
                        v.push(("c11:closed-without-opened".into(), format!("node {i}: NotificationStreamClosed for n{j} at {} while not open", ts(r.t))));
                    }
                    open = false;
                }
                K::EOpenFailure { peer, err } if *peer == j => {
                    if open {
                        // One specific shape is a recorded finding (KNOWN_FINDINGS.jsonl): every network
                        // connection to the peer has ended, the user's own open request is answered
                        // (no connection / dial failure) by the protocol task before the per-stream
                        // task has reported the closure of the stream that died with the connection.
                        // structural signature: the failure answers an outstanding request of the
                        // user's, says "no connection", the node has been told that a connection
                        // to the peer closed, and the very next thing the user learns about the
                        // stream is its closure (the closure report was merely overtaken)
                        let conn_gone = matches!(err.as_str(), "DialFailure" | "NoConnection") && open_credit > 0 && {
                            let pos = evs.iter().position(|q| std::ptr::eq(*q, *r)).unwrap_or(0);
                            let next_is_closed = evs[pos + 1..].iter().find(|q| matches!(&q.k, K::EOpened { peer, .. } | K::EClosed { peer } if *peer == j)).is_some_and(|q| matches!(q.k, K::EClosed { .. }));
                            let told_closed = evs.iter().any(|q| matches!(&q.k, K::AClosed { peer } if *peer == j));
                            next_is_closed && told_closed
                        };
                        let class = if conn_gone { "c11:open-failure-while-open:request-answered-before-closure-reported" } else { "c11:open-failure-while-open" };
                        v.push((class.into(), format!("node {i}: NotificationStreamOpenFailure({err}) for n{j} at {} while the stream is open", ts(r.t))));
                    }
                    if open_credit == 0 && accept_credit == 0 && !open {
                        v.push(("c11:unsolicited-open-failure".into(), format!("node {i}: NotificationStreamOpenFailure({err}) for n{j} at {} although nothing was requested or accepted", ts(r.t))));
                    }
                    if open_credit > 0 {
                        open_credit -= 1;
                    } else {
                        accept_credit = accept_credit.saturating_sub(1);
                    }
                    if let Some(l) = idle_requests.last_mut() {
                        l.1 = true;
                    }
                }
                K::ERecv { peer, .. } if *peer == j => {
                    if !open {
                        v.push(("c11:notification-while-closed".into(), format!("node {i}: NotificationReceived from n{j} at {} while the stream is not open", ts(r.t))));
                    }
                }
                _ => {}
            }
        }
        if !self.alive(i) {
            return;
        }
        // a close request for an open stream is honoured
        for (t, closed) in close_requests.iter() {
            if !*closed && *t + 45_000_000_000 <= self.end_ns {
                v.push(("c11:close-unanswered".into(), format!("node {i}: close_substream(n{j}) at {} while the stream was open was never followed by NotificationStreamClosed", ts(*t))));
            }
        }
        // response rule
        for (t, answered) in idle_requests.iter() {
            if !*answered && *t + 45_000_000_000 <= self.end_ns {
                let cls = if *t >= self.t2_ns { "c11:canary-open-unanswered" } else { "c11:open-unanswered" };
                v.push((cls.into(), format!("node {i}: open_substream(n{j}) at {} (nothing open, pending or under validation) got neither NotificationStreamOpened nor NotificationStreamOpenFailure by the horizon {}", ts(*t), ts(self.end_ns))));
            }
        }
        // loss rule: stream still open although every connection to the peer ended long ago
        if open && j <= self.n {
            let cb = self.conns_between(i, j);
            let all_dead = !cb.is_empty() && cb.iter().all(|c| c.3.is_some_and(|d| d + 1_000_000_000 <= self.end_ns));
            let vanished = self.dead.get(&j).cloned().unwrap_or(false);
            if all_dead && !vanished {
                v.push(("c11:open-after-connection-lost".into(), format!("node {i}: every connection to n{j} ended more than 1 s before the horizon but the notification stream is still reported open")));
            }
        }
        // canary: after the reset, i (< j) opens to j on a healthy network and both users accept
        if j <= self.n && i < j && self.alive(j) && self.should_dial[i] {
            let requested = evs.iter().any(|r| r.t >= self.t2_ns && matches!(&r.k, K::COpen { peer, res } if *peer == j && res == "ok"));
            let opened_i = evs.iter().any(|r| r.t >= self.t2_ns && matches!(&r.k, K::EOpened { peer, .. } if *peer == j));
            let opened_j = self.log.iter().any(|r| r.node == j && r.t >= self.t2_ns && matches!(&r.k, K::EOpened { peer, .. } if *peer == i));
            let already_open_i = {
                let mut o = false;
                for r in evs.iter().filter(|r| r.t < self.t2_ns) {
                    match &r.k {
                        K::EOpened { peer, .. } if *peer == j => o = true,
                        K::EClosed { peer } if *peer == j => o = false,
                        _ => {}
                    }
                }
                o
            };
            if requested && !already_open_i && !(opened_i && opened_j) {
                v.push(("c11:canary-failed".into(), format!("final phase: every user was reset (pending validations answered, streams closed, accept-all), the network is fault-free, yet open_substream(n{j}) on node {i} did not yield an open stream on both ends (opened on n{i}: {opened_i}, on n{j}: {opened_j})")));
            }
        }
        let _ = self.t1_ns;
        let _ = self.auto_accept;
    }

    /// C12: per (sender, mode): gap-free in-order prefix per sender period, periods in order.
    fn check_data(&self, i: usize, evs: &[&Rec], v: &mut Vec<(String, String)>) {
        let ts = |t: u64| format!("{:.3}s", t as f64 / 1e9);
        // accepted by the sender: (sender, receiver, period, mode) -> count of Ok sends
        let mut last: BTreeMap<(usize, u8), (u32, u32)> = BTreeMap::new();
        // Recorded finding (KNOWN_FINDINGS.jsonl): the receiving user reads late; the stream of the
        // sender's period was already reported closed to it, the notifications still queued for
        // the handle are discarded while the peer is "not open" and the rest of them is delivered
        // once the next stream to the peer is reported open. Shape: the first notification the
        // user gets of a sender period has seq > 0 and the user has read a Closed for that peer
        // after the sender had started sending in that period.
        let leftover = |sender: usize, period: u32, r: &Rec| -> bool {
            let first_send = self.log.iter().filter(|q| q.node == sender && matches!(&q.k, K::CSend { peer: p, period: pe, .. } if *p == i && *pe == period)).map(|q| q.t).min();
            let Some(t0) = first_send else { return false };
            let pos = evs.iter().position(|q| std::ptr::eq(*q, r)).unwrap_or(0);
            evs[..pos].iter().any(|q| q.t >= t0 && matches!(&q.k, K::EClosed { peer: p } if *p == sender))
        };
        for r in evs.iter() {
            if let K::ERecv { peer, period, mode, seq, len, ok } = &r.k {
                if !*ok {
                    v.push(("c12:garbled-notification".into(), format!("node {i}: notification from n{peer} at {} ({len} bytes) is not what any sender produced", ts(r.t))));
                    continue;
                }
                if *len > self.max_size {
                    v.push(("c12:oversize-delivered".into(), format!("node {i}: notification of {len} bytes from n{peer} delivered, maximum is {}", self.max_size)));
                }
                // must have been accepted by the sender
                let sent = self.log.iter().any(|q| q.node == *peer && matches!(&q.k, K::CSend { peer: p, mode: m, period: pe, seq: s, res, .. } if *p == i && m == mode && pe == period && s == seq && res == "ok"));
                if !sent {
                    // the send call may still be in flight (async) — only flag when the sender is alive
                    // and recorded nothing for it at all
                    let attempted = self.log.iter().any(|q| q.node == *peer && matches!(&q.k, K::CSend { peer: p, mode: m, period: pe, seq: s, .. } if *p == i && m == mode && pe == period && s == seq));
                    if !attempted && self.alive(*peer) && *mode == 0 {
                        v.push(("c12:delivered-never-sent".into(), format!("node {i}: notification (period {period}, mode {mode}, seq {seq}) from n{peer} delivered but never sent")));
                    }
                }
                match last.get(&(*peer, *mode)).cloned() {
                    None => {
                        if *seq != 0 {
                            let class = if leftover(*peer, *period, r) { "c12:gap:leftover-of-closed-stream-delivered-after-reopen" } else { "c12:gap" };
                            v.push((class.into(), format!("node {i}: first notification delivered from n{peer} in its period {period} (mode {mode}) has seq {seq}, seq 0.. were skipped (at {})", ts(r.t))));
                        }
                    }
                    Some((lp, ls)) => {
                        if *period < lp {
                            v.push(("c12:cross-period-reorder".into(), format!("node {i}: notification of n{peer}'s period {period} delivered at {} after one of period {lp}", ts(r.t))));
                        } else if *period == lp {
                            if *seq <= ls {
                                v.push(("c12:duplicate-or-reorder".into(), format!("node {i}: n{peer} period {period} mode {mode}: seq {seq} delivered at {} after seq {ls}", ts(r.t))));
                            } else if *seq != ls + 1 {
                                v.push(("c12:gap".into(), format!("node {i}: n{peer} period {period} mode {mode}: seq {seq} delivered at {} right after seq {ls}: {} notification(s) skipped", ts(r.t), seq - ls - 1)));
                            }
                        } else if *seq != 0 {
                            let class = if leftover(*peer, *period, r) { "c12:gap:leftover-of-closed-stream-delivered-after-reopen" } else { "c12:gap" };
                            v.push((class.into(), format!("node {i}: first notification delivered from n{peer} in its period {period} (mode {mode}) has seq {seq} (at {})", ts(r.t))));
                        }
                    }
                }
                last.insert((*peer, *mode), (*period, *seq));
            }
        }
        // asynchronous send must complete once there is capacity: a send stuck for 40 s while the
        // stream stayed open on both ends and the receiver kept reading is a violation
        for r in evs.iter() {
            if let K::AsyncStuck { peer } = &r.k {
                let t0 = r.t.saturating_sub(40_000_000_000);
                let closed_local = evs.iter().any(|q| q.t >= t0 && q.t <= r.t + 1_000_000_000 && matches!(&q.k, K::EClosed { peer: p } if p == peer));
                let remote_stalled_or_closed = self.log.iter().any(|q| q.node == *peer && q.t >= t0 && q.t <= r.t && matches!(&q.k, K::EClosed { .. } | K::Killed | K::FinalReset));
                // receiver stalls are part of the workload: only flag if the receiver consumed
                // events during the window
                let remote_reads = self.log.iter().filter(|q| q.node == *peer && q.t >= t0 && q.t <= r.t && matches!(&q.k, K::ERecv { .. })).count();
                // a stalled process neither reads (receiver) nor drives its own send (sender)
                let frozen = self.stalled_within(*peer, t0, r.t) || self.stalled_within(i, t0, r.t);
                // nothing is delivered across a partition: the 40 s only count on a network that
                // carried traffic between the two nodes (a 40 s partition that heals milliseconds
                // before the limit lets the receiver read a few notifications inside the window)
                let cut = self.partitions.iter().any(|p| ((p.0 == i && p.1 == *peer) || (p.1 == i && p.0 == *peer)) && p.2 <= r.t && p.3 >= t0 && p.3.min(r.t) - p.2.max(t0) >= 1_000_000_000);
                if !closed_local && !remote_stalled_or_closed && !frozen && !cut && remote_reads > 0 && self.alive(*peer) {
                    v.push(("c12:async-send-stuck".into(), format!("node {i}: send_async_notification to n{peer} did not complete within 40 s although the stream stayed open and the receiver kept reading (stuck at {})", ts(r.t))));
                }
            }
        }
    }
}
