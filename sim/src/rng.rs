//! SplitMix64 streams. One seed per run; independent streams are forked by purpose so that
//! shrinking one dimension (e.g. the workload) does not shift another (e.g. the scheduler).
#[derive(Clone, Debug)]
pub struct Rng(pub u64);

impl Rng {
    pub fn new(seed: u64) -> Self {
        Rng(seed)
    }
    pub fn fork(seed: u64, purpose: &str) -> Self {
        let mut h = 0xcbf29ce484222325u64 ^ seed.wrapping_mul(0x9E3779B97F4A7C15);
        for b in purpose.bytes() {
            h ^= b as u64;
            h = h.wrapping_mul(0x100000001b3);
        }
        let mut r = Rng(h);
        r.next();
        r
    }
    pub fn next(&mut self) -> u64 {
        self.0 = self.0.wrapping_add(0x9E3779B97F4A7C15);
        let mut z = self.0;
        z = (z ^ (z >> 30)).wrapping_mul(0xBF58476D1CE4E5B9);
        z = (z ^ (z >> 27)).wrapping_mul(0x94D049BB133111EB);
        z ^ (z >> 31)
    }
    /// Uniform in `0..n` (n = 0 gives 0).
    pub fn below(&mut self, n: u64) -> u64 {
        if n == 0 {
            0
        } else {
            self.next() % n
        }
    }
    /// Uniform in `lo..=hi`.
    pub fn range(&mut self, lo: u64, hi: u64) -> u64 {
        lo + self.below(hi.saturating_sub(lo) + 1)
    }
    pub fn chance(&mut self, num: u64, den: u64) -> bool {
        self.below(den) < num
    }
    pub fn pick<'a, T>(&mut self, xs: &'a [T]) -> &'a T {
        &xs[self.below(xs.len() as u64) as usize]
    }
    pub fn bytes(&mut self, n: usize) -> Vec<u8> {
        let mut v = Vec::with_capacity(n);
        while v.len() < n {
            let x = self.next().to_le_bytes();
            let k = (n - v.len()).min(8);
            v.extend_from_slice(&x[..k]);
        }
        v
    }
}

pub fn fnv(h: &mut u64, data: &[u8]) {
    for b in data {
        *h ^= *b as u64;
        *h = h.wrapping_mul(0x100000001b3);
    }
}
