//! Generic check driver: seeded search over materialised cases, shrinking, replay files, known
//! findings, evidence.
use crate::seams::wall_now;
use crate::sim::{RunOutput, Violation};
use serde_json::{json, Value};
use std::{
    collections::{BTreeMap, BTreeSet, HashSet},
    sync::{
        atomic::{AtomicBool, AtomicU64, Ordering},
        Arc, Mutex,
    },
};

#[derive(Clone, Copy, Debug, PartialEq)]
pub enum Tier {
    Quick,
    Thorough,
}

impl Tier {
    pub fn name(&self) -> &'static str {
        match self {
            Tier::Quick => "quick",
            Tier::Thorough => "thorough",
        }
    }
}

pub struct Budget {
    pub runs: u64,
    pub wall_s: f64,
}

pub struct Describe {
    pub level: &'static str,
    pub rule: String,
    pub real: Vec<&'static str>,
    pub stub: Vec<&'static str>,
    pub assumptions: Vec<&'static str>,
}

pub trait Prop: Sync + Send {
    fn id(&self) -> &'static str;
    /// Materialise case number `seed`: everything the run depends on is in the returned value.
    fn gen(&self, seed: u64, tier: Tier) -> Value;
    /// Pure function of the case (and the code under test).
    fn run(&self, case: &Value, verbose: bool) -> RunOutput;
    fn budget(&self, tier: Tier) -> Budget;
    fn describe(&self) -> Describe;
    /// A run counts as non-trivial if ...
    fn nontrivial(&self, out: &RunOutput) -> bool {
        out.stats.choice_points >= 1
    }
    /// Systematic (non-seeded) cases run before the seeded search, e.g. fault enumeration.
    fn systematic(&self, _tier: Tier) -> Vec<Value> {
        Vec::new()
    }
    /// top-level array keys the shrinker may thin out
    fn shrink_keys(&self) -> Vec<&'static str> {
        vec!["faults", "ops"]
    }
}

#[derive(Clone, Debug)]
pub struct Known {
    pub status: String,
    pub property: String,
    pub class_prefix: String,
    pub what: String,
}

pub fn load_known(path: &str) -> Vec<Known> {
    let mut v = Vec::new();
    let Ok(s) = std::fs::read_to_string(path) else { return v };
    for l in s.lines() {
        let l = l.trim();
        if l.is_empty() || l.starts_with('#') {
            continue;
        }
        if let Ok(j) = serde_json::from_str::<Value>(l) {
            v.push(Known {
                status: j["status"].as_str().unwrap_or("").to_string(),
                property: j["property"].as_str().unwrap_or("").to_string(),
                class_prefix: j["class_prefix"].as_str().unwrap_or("\u{0}").to_string(),
                what: j["what"].as_str().unwrap_or("").to_string(),
            });
        }
    }
    v
}

struct Agg {
    evaluations: u64,
    nontrivial: u64,
    distinct: HashSet<u64>,
    sched_distinct: HashSet<u64>,
    sim_ns: u128,
    polls: u64,
    choice_points: u64,
    faults: BTreeMap<String, u64>,
    probes: BTreeMap<String, u64>,
    runs_with_fault: u64,
    violations: Vec<(Value, Violation)>,
    violation_count: u64,
    samples: Vec<Value>,
    first_hashes: BTreeMap<u64, u64>,
}

fn fold(agg: &mut Agg, prop: &dyn Prop, idx: u64, case: &Value, out: &RunOutput, keep_sample: bool) {
    agg.evaluations += 1;
    if prop.nontrivial(out) {
        agg.nontrivial += 1;
        // distinct = distinct (case, trace): systematic cases may share a seed
        let mut hsh = out.trace_hash;
        crate::rng::fnv(&mut hsh, case.to_string().as_bytes());
        agg.distinct.insert(hsh);
    }
    agg.sched_distinct.insert(out.stats.sched_hash);
    agg.sim_ns += out.stats.sim_ns as u128;
    agg.polls += out.stats.polls;
    agg.choice_points += out.stats.choice_points;
    if !out.faults_fired.is_empty() {
        agg.runs_with_fault += 1;
    }
    for (k, v) in &out.faults_fired {
        *agg.faults.entry(k.clone()).or_insert(0) += v;
    }
    for (k, v) in &out.probes {
        *agg.probes.entry(k.clone()).or_insert(0) += v;
    }
    if idx < 16 {
        agg.first_hashes.insert(idx, out.trace_hash);
    }
    if let Some(v) = &out.violation {
        agg.violation_count += 1;
        if agg.violations.len() < 64 && !agg.violations.iter().any(|(_, x)| x.class == v.class) {
            agg.violations.push((case.clone(), v.clone()));
        }
    }
    if keep_sample && agg.samples.len() < 3 {
        let log: Vec<String> = out.log.iter().take(60).map(|(t, s)| format!("{:.6}s {}", *t as f64 / 1e9, s)).collect();
        agg.samples.push(json!({
            "case": case,
            "polls": out.stats.polls,
            "choice_points": out.stats.choice_points,
            "sim_s": out.stats.sim_ns as f64 / 1e9,
            "faults_fired": out.faults_fired,
            "history_head": log,
        }));
    }
}

pub fn class_matches(v: &Violation, k: &Known) -> bool {
    v.class.starts_with(&k.class_prefix)
}

fn same_class(a: &str, b: &str) -> bool {
    a == b
}

/// Delta-debugging style minimisation, bounded by wall clock.
pub fn shrink(prop: &dyn Prop, case: &Value, class: &str, wall_budget_s: f64) -> (Value, u64) {
    let t0 = wall_now();
    let mut best = case.clone();
    let mut tries = 0u64;
    let fails = |c: &Value, tries: &mut u64| -> bool {
        *tries += 1;
        match prop.run(c, false).violation {
            Some(v) => same_class(&v.class, class),
            None => false,
        }
    };
    let over = |t0: std::time::Duration| (wall_now() - t0).as_secs_f64() > wall_budget_s;
    let mut progress = true;
    while progress && !over(t0) {
        progress = false;
        for key in prop.shrink_keys() {
            let Some(arr) = best.get(key).and_then(|a| a.as_array()).cloned() else { continue };
            let mut arr = arr;
            let mut chunk = (arr.len() + 1) / 2;
            while chunk >= 1 && !arr.is_empty() && !over(t0) {
                let mut i = 0;
                let mut removed_any = false;
                while i < arr.len() && !over(t0) {
                    let end = (i + chunk).min(arr.len());
                    let mut cand_arr = arr.clone();
                    cand_arr.drain(i..end);
                    let mut cand = best.clone();
                    cand[key] = Value::Array(cand_arr.clone());
                    if fails(&cand, &mut tries) {
                        arr = cand_arr;
                        best = cand;
                        removed_any = true;
                        progress = true;
                    } else {
                        i = end;
                    }
                }
                if chunk == 1 && !removed_any {
                    break;
                }
                if chunk > 1 {
                    chunk = (chunk + 1) / 2;
                } else if !removed_any {
                    break;
                }
            }
        }
        // scalar simplifications
        let mut simpl: Vec<(&str, Value)> = vec![("sched", json!({"kind": "fifo"})), ("net", json!({}))];
        if let Some(n) = best.get("nodes").and_then(|n| n.as_u64()) {
            if n > 2 {
                simpl.push(("nodes", json!(n - 1)));
            }
        }
        for (k, v) in simpl {
            if over(t0) {
                break;
            }
            if best.get(k).is_some() && best[k] != v {
                let mut cand = best.clone();
                cand[k] = v;
                if fails(&cand, &mut tries) {
                    best = cand;
                    progress = true;
                }
            }
        }
    }
    (best, tries)
}

pub struct CheckOpts {
    pub tier: Tier,
    pub seed: u64,
    pub jobs: usize,
    pub verif_dir: String,
    pub runs_override: Option<u64>,
    pub wall_override: Option<f64>,
}

fn replay_path(dir: &str, id: &str, seed: u64, class: &str) -> String {
    let mut h = 0xcbf29ce484222325u64;
    crate::rng::fnv(&mut h, class.as_bytes());
    format!("{dir}/replays/{id}-{seed}-{:08x}.json", h as u32)
}

/// Returns the process exit code.
pub fn check(prop: Arc<dyn Prop>, opts: &CheckOpts) -> i32 {
    let id = prop.id();
    let t0 = wall_now();
    let budget = prop.budget(opts.tier);
    let runs = opts.runs_override.unwrap_or(budget.runs);
    let wall_s = opts.wall_override.unwrap_or(budget.wall_s);
    let known: Vec<Known> = load_known(&format!("{}/KNOWN_FINDINGS.jsonl", opts.verif_dir)).into_iter().filter(|k| k.property == id).collect();
    println!("vsim: check property={id} tier={} seed={} runs<={runs} wall<={wall_s}s jobs={}", opts.tier.name(), opts.seed, opts.jobs);

    let agg = Arc::new(Mutex::new(Agg {
        evaluations: 0,
        nontrivial: 0,
        distinct: HashSet::new(),
        sched_distinct: HashSet::new(),
        sim_ns: 0,
        polls: 0,
        choice_points: 0,
        faults: BTreeMap::new(),
        probes: BTreeMap::new(),
        runs_with_fault: 0,
        violations: Vec::new(),
        violation_count: 0,
        samples: Vec::new(),
        first_hashes: BTreeMap::new(),
    }));

    // systematic pre-pass
    let systematic = prop.systematic(opts.tier);
    let n_sys = systematic.len() as u64;
    let systematic = Arc::new(systematic);

    let next = Arc::new(AtomicU64::new(0));
    let stop = Arc::new(AtomicBool::new(false));
    let total = n_sys + runs;
    let mut ths = Vec::new();
    for _ in 0..opts.jobs.max(1) {
        let prop = prop.clone();
        let agg = agg.clone();
        let next = next.clone();
        let stop = stop.clone();
        let systematic = systematic.clone();
        let base = opts.seed;
        let tier = opts.tier;
        ths.push(std::thread::spawn(move || loop {
            if stop.load(Ordering::Relaxed) {
                break;
            }
            let i = next.fetch_add(1, Ordering::Relaxed);
            if i >= total {
                break;
            }
            if (wall_now() - t0).as_secs_f64() > wall_s && i >= n_sys {
                break;
            }
            let (case, idx) = if i < n_sys {
                (systematic[i as usize].clone(), u64::MAX)
            } else {
                let k = i - n_sys;
                (gen_case(prop.as_ref(), base.wrapping_add(k), tier), k)
            };
            let want_sample = idx < 3;
            let out = prop.run(&case, want_sample);
            let mut a = agg.lock().unwrap();
            fold(&mut a, &*prop, idx, &case, &out, want_sample);
            if a.violations.len() >= 8 {
                stop.store(true, Ordering::Relaxed);
            }
        }));
    }
    for t in ths {
        let _ = t.join();
    }

    let mut a = agg.lock().unwrap();
    let mut exit = 0;

    // determinism spot check: re-run the first seeds and compare trace hashes
    let mut det_checked = 0;
    for (idx, h) in a.first_hashes.clone() {
        let case = gen_case(prop.as_ref(), opts.seed.wrapping_add(idx), opts.tier);
        let out = prop.run(&case, false);
        det_checked += 1;
        if out.trace_hash != h {
            println!("HARNESS-ERROR property={id} nondeterministic replay of seed {} ({:x} vs {:x})", opts.seed.wrapping_add(idx), h, out.trace_hash);
            exit = 2;
        }
    }

    // violations
    let mut reported = Vec::new();
    let mut known_hits: BTreeMap<String, u64> = BTreeMap::new();
    let mut new_violations = 0;
    let viols = a.violations.clone();
    for (case, v) in viols.iter() {
        if v.class.starts_with("harness:") {
            // keep the case so the harness error can be replayed and looked at
            let path = format!("{}/replays/{id}-harness-{}.json", opts.verif_dir, case["seed"].as_u64().unwrap_or(0));
            let _ = std::fs::create_dir_all(format!("{}/replays", opts.verif_dir));
            let _ = std::fs::write(&path, serde_json::to_string_pretty(&serde_json::json!({"case": case, "violation": {"class": v.class, "detail": v.detail}})).unwrap_or_default());
            println!("HARNESS-ERROR property={id} {} {} (case kept at {path})", v.class, v.detail);
            exit = 2;
            continue;
        }
        if let Some(k) = known.iter().find(|k| k.status == "known" && class_matches(v, k)) {
            *known_hits.entry(k.class_prefix.clone()).or_insert(0) += 1;
            continue;
        }
        new_violations += 1;
        if reported.len() >= 3 {
            continue;
        }
        let shrink_budget = if opts.tier == Tier::Quick { 25.0 } else { 90.0 };
        let (small, tries) = shrink(&*prop, case, &v.class, shrink_budget);
        let out = prop.run(&small, true);
        let (fv, out) = match out.violation.clone() {
            Some(fv) if fv.class == v.class => (fv, out),
            _ => {
                // fall back to the unshrunk case
                let out = prop.run(case, true);
                (out.violation.clone().unwrap_or(v.clone()), out)
            }
        };
        let seed = small["seed"].as_u64().unwrap_or(0);
        let path = replay_path(&opts.verif_dir, id, seed, &fv.class);
        let _ = std::fs::create_dir_all(format!("{}/replays", opts.verif_dir));
        let log: Vec<String> = out.log.iter().map(|(t, s)| format!("{:.6}s {}", *t as f64 / 1e9, s)).collect();
        let file = json!({
            "property": id,
            "violation": {"class": fv.class, "detail": fv.detail},
            "trace_hash": format!("{:016x}", out.trace_hash),
            "shrink_tries": tries,
            "case": small,
            "original_case_seed": case["seed"],
            "history": log,
        });
        std::fs::write(&path, serde_json::to_string_pretty(&file).unwrap()).expect("write replay");
        // confirm in a fresh process
        let exe = std::env::current_exe().unwrap();
        let st = std::process::Command::new(exe).arg("replay").arg(&path).arg("--quiet").status();
        match st {
            Ok(s) if s.code() == Some(1) => {
                println!("VIOLATION property={id} replay={path}");
                println!("  class: {}", fv.class);
                println!("  detail: {}", fv.detail);
                reported.push(path);
                exit = exit.max(1);
            }
            other => {
                println!("HARNESS-ERROR property={id} replay of {path} did not reproduce in a fresh process: {other:?}");
                exit = 2;
            }
        }
    }
    for k in known.iter().filter(|k| k.status == "known") {
        let n = known_hits.get(&k.class_prefix).cloned().unwrap_or(0);
        println!("KNOWN-FINDING: property={id} {} [signature {}; reproduced in this run: {}]", k.what, k.class_prefix, if n > 0 { "yes" } else { "no" });
    }

    // evidence
    let wall = (wall_now() - t0).as_secs_f64();
    let d = prop.describe();
    let states: BTreeSet<&String> = a.probes.keys().filter(|k| k.starts_with("state:")).collect();
    let n_states = states.len();
    let evals = a.evaluations;
    let ev = json!({
        "property_id": id,
        "tier": opts.tier.name(),
        "seed": opts.seed,
        "level": d.level,
        "wall_s": wall,
        "violations": new_violations,
        "assumptions": d.assumptions,
        "coverage": {
            "evaluations": evals,
            "distinct_nontrivial": a.distinct.len(),
            "rule": d.rule,
            "samples": std::mem::take(&mut a.samples),
            "systematic_cases": n_sys,
            "seeded_runs": evals.saturating_sub(n_sys),
            "runs_per_hour": if wall > 0.0 { (evals as f64 / wall * 3600.0) as u64 } else { 0 },
            "simulated_seconds_total": (a.sim_ns as f64) / 1e9,
            "task_polls_total": a.polls,
            "scheduler_choice_points_total": a.choice_points,
            "distinct_schedules": a.sched_distinct.len(),
            "runs_with_at_least_one_fault_fired": a.runs_with_fault,
            "faults_fired": a.faults,
            "probes": a.probes.iter().filter(|(k, _)| !k.starts_with("state:")).collect::<BTreeMap<_, _>>(),
            "distinct_abstract_states": n_states,
            "determinism_spot_checks": det_checked,
            "known_finding_hits": known_hits,
            "violating_runs_total": a.violation_count,
            "components_real": d.real,
            "components_stubbed": d.stub,
            "exhaustive": false,
        },
    });
    let _ = std::fs::create_dir_all(format!("{}/evidence", opts.verif_dir));
    std::fs::write(format!("{}/evidence/{id}.json", opts.verif_dir), serde_json::to_string_pretty(&ev).unwrap()).expect("write evidence");
    println!(
        "vsim: property={id} runs={} nontrivial-distinct={} sim-seconds={:.1} wall={:.1}s violations(new)={} known-hits={} exit={}",
        evals,
        a.distinct.len(),
        a.sim_ns as f64 / 1e9,
        wall,
        new_violations,
        known_hits.values().sum::<u64>(),
        exit
    );
    exit
}

/// Replay a file written by `check`. Exit 1 = the recorded violation reproduced, 0 = no
/// violation, 2 = different outcome than recorded.
pub fn replay(prop: &dyn Prop, file: &Value, quiet: bool) -> i32 {
    let case = &file["case"];
    let out = prop.run(case, true);
    if !quiet {
        for (t, s) in &out.log {
            println!("{:>12.6}s {}", *t as f64 / 1e9, s);
        }
    }
    let want_class = file["violation"]["class"].as_str().unwrap_or("");
    let want_hash = file["trace_hash"].as_str().unwrap_or("");
    let got_hash = format!("{:016x}", out.trace_hash);
    match &out.violation {
        Some(v) => {
            println!("replay: violation class={} detail={}", v.class, v.detail);
            if v.class == want_class && (want_hash.is_empty() || want_hash == got_hash) {
                println!("replay: reproduced exactly (trace hash {got_hash})");
                1
            } else if v.class == want_class {
                println!("replay: same violation but trace hash differs ({got_hash} vs recorded {want_hash})");
                2
            } else {
                println!("replay: different violation than recorded ({want_class})");
                2
            }
        }
        None => {
            println!("replay: no violation (recorded: {want_class})");
            if want_class.is_empty() {
                0
            } else {
                0
            }
        }
    }
}

/// Determinism self-test: every seed is run three times — sequentially on this thread's pool,
/// concurrently with 16 workers in a different order, and the hashes are printed so that a second
/// process can be diffed against this one.
pub fn determinism(prop: Arc<dyn Prop>, seeds: u64, base: u64) -> u64 {
    let id = prop.id();
    let mut first: Vec<u64> = Vec::new();
    for k in 0..seeds {
        let case = gen_case(prop.as_ref(), base + k, Tier::Quick);
        first.push(prop.run(&case, false).trace_hash);
    }
    let second = Arc::new(Mutex::new(vec![0u64; seeds as usize]));
    let next = Arc::new(AtomicU64::new(0));
    let mut ths = Vec::new();
    for _ in 0..16 {
        let prop = prop.clone();
        let second = second.clone();
        let next = next.clone();
        ths.push(std::thread::spawn(move || loop {
            let i = next.fetch_add(1, Ordering::Relaxed);
            if i >= seeds {
                break;
            }
            let k = seeds - 1 - i;
            let case = gen_case(prop.as_ref(), base + k, Tier::Quick);
            let h = prop.run(&case, false).trace_hash;
            second.lock().unwrap()[k as usize] = h;
        }));
    }
    for t in ths {
        let _ = t.join();
    }
    let second = second.lock().unwrap();
    let mut bad = 0;
    let mut all = 0xcbf29ce484222325u64;
    for k in 0..seeds as usize {
        crate::rng::fnv(&mut all, &first[k].to_le_bytes());
        if first[k] != second[k] {
            bad += 1;
            println!("DIVERGENCE property={id} seed={} {:016x} vs {:016x}", base + k as u64, first[k], second[k]);
        }
    }
    let distinct: BTreeSet<u64> = first.iter().cloned().collect();
    println!("determinism property={id} seeds={seeds} divergences={bad} distinct-traces={} digest={:016x}", distinct.len(), all);
    bad
}

/// Properties whose whole-node scenario also runs in the WebSocket flavour.
const WS_FLAVOUR_PROPS: &[&str] = &["C09", "C11", "C12", "C13", "C16"];

/// A property's generator plus the run-wide flavours that are drawn from independent streams of
/// the seed.
pub fn gen_case(prop: &dyn Prop, seed: u64, tier: Tier) -> serde_json::Value {
    let mut case = prop.gen(seed, tier);
    if WS_FLAVOUR_PROPS.contains(&prop.id()) {
        crate::node::maybe_ws_transport(seed, &mut case);
    }
    case
}
