//! libc-level seams: the harness binary defines `clock_gettime`, `getrandom` and `syscall`, so that
//! `std::time::Instant`, `SystemTime`, `HashMap`'s `RandomState` and every `rand`/`getrandom`
//! consumer (`OsRng`, `thread_rng`, snow's and ring's key generation: getrandom 0.2 goes through
//! `libc::syscall(SYS_getrandom)`) inside a simulation follow the simulator instead of the kernel. Outside a simulation (flag off) both forward to the raw
//! syscall, so wall-clock budgets and evidence timing stay real.
use std::cell::Cell;

thread_local! {
    static SIM_ON: Cell<bool> = const { Cell::new(false) };
    static SIM_NOW_NS: Cell<u64> = const { Cell::new(0) };
    static SIM_RNG: Cell<u64> = const { Cell::new(0x9E3779B97F4A7C15) };
}

/// Simulated time zero expressed on the monotonic/realtime clocks.
const EPOCH_NS: u64 = 1_000_000 * 1_000_000_000;

#[no_mangle]
pub unsafe extern "C" fn clock_gettime(clk: libc::clockid_t, ts: *mut libc::timespec) -> libc::c_int {
    if SIM_ON.with(|s| s.get()) {
        let ns = EPOCH_NS + SIM_NOW_NS.with(|n| n.get());
        (*ts).tv_sec = (ns / 1_000_000_000) as libc::time_t;
        (*ts).tv_nsec = (ns % 1_000_000_000) as libc::c_long;
        0
    } else {
        libc::syscall(libc::SYS_clock_gettime, clk, ts) as libc::c_int
    }
}

unsafe fn sim_fill(buf: *mut libc::c_void, len: libc::size_t) -> libc::ssize_t {
    let s = std::slice::from_raw_parts_mut(buf as *mut u8, len);
    for b in s.iter_mut() {
        let mut x = SIM_RNG.with(|r| r.get());
        x ^= x << 13;
        x ^= x >> 7;
        x ^= x << 17;
        SIM_RNG.with(|r| r.set(x));
        *b = (x >> 24) as u8;
    }
    len as libc::ssize_t
}

#[no_mangle]
pub unsafe extern "C" fn getrandom(buf: *mut libc::c_void, len: libc::size_t, flags: libc::c_uint) -> libc::ssize_t {
    if SIM_ON.with(|s| s.get()) {
        sim_fill(buf, len)
    } else {
        libc::syscall(libc::SYS_getrandom, buf, len, flags) as libc::ssize_t
    }
}

/// Replacement for libc's variadic `syscall(2)` wrapper (x86_64 SysV: a variadic callee receives
/// its integer arguments exactly like a fixed-arity one). `SYS_getrandom` is served from the
/// simulation's generator while the seam is armed; everything else is the raw instruction with
/// libc's errno convention.
#[cfg(target_arch = "x86_64")]
#[no_mangle]
pub unsafe extern "C" fn syscall(num: libc::c_long, a1: usize, a2: usize, a3: usize, a4: usize, a5: usize, a6: usize) -> libc::c_long {
    if num == libc::SYS_getrandom && SIM_ON.with(|s| s.get()) {
        return sim_fill(a1 as *mut libc::c_void, a2) as libc::c_long;
    }
    let ret: isize;
    core::arch::asm!(
        "syscall",
        inlateout("rax") num as isize => ret,
        in("rdi") a1, in("rsi") a2, in("rdx") a3, in("r10") a4, in("r8") a5, in("r9") a6,
        lateout("rcx") _, lateout("r11") _,
        options(nostack)
    );
    if (-4095..0).contains(&ret) {
        *libc::__errno_location() = (-ret) as libc::c_int;
        -1
    } else {
        ret as libc::c_long
    }
}

/// Arm the seams on the calling thread. `hash_seed` feeds `RandomState`.
pub fn enter(hash_seed: u64) {
    SIM_RNG.with(|r| r.set(hash_seed | 1));
    SIM_NOW_NS.with(|n| n.set(0));
    SIM_ON.with(|s| s.set(true));
}

pub fn leave() {
    SIM_ON.with(|s| s.set(false));
}

pub fn is_on() -> bool {
    SIM_ON.with(|s| s.get())
}

/// Mirror the simulator's virtual clock into the std clock.
pub fn set_now_ns(ns: u64) {
    SIM_NOW_NS.with(|n| n.set(ns));
}

pub fn now_ns() -> u64 {
    SIM_NOW_NS.with(|n| n.get())
}

/// Real wall clock, independent of the seam.
pub fn wall_now() -> std::time::Duration {
    let mut ts = libc::timespec { tv_sec: 0, tv_nsec: 0 };
    unsafe { libc::syscall(libc::SYS_clock_gettime, libc::CLOCK_MONOTONIC, &mut ts as *mut libc::timespec) };
    std::time::Duration::new(ts.tv_sec as u64, ts.tv_nsec as u32)
}
