//! libc-level seams: the harness binary defines `clock_gettime` and `getrandom`, so that
//! `std::time::Instant`, `SystemTime` and `HashMap`'s `RandomState` inside a simulation follow the
//! simulator instead of the kernel. Outside a simulation (flag off) both forward to the raw
//! syscall, so wall-clock budgets and evidence timing stay real.
use std::cell::Cell;

thread_local! {
    static SIM_ON: Cell<bool> = const { Cell::new(false) };
    static SIM_NOW_NS: Cell<u64> = const { Cell::new(0) };
    static SIM_RNG: Cell<u64> = const { Cell::new(0x9E3779B97F4A7C15) };
}

/// Simulated time zero expressed on the monotonic/realtime clocks.
const EPOCH_NS: u64 = 1_000_000 * 1_000_000_000;

#[no_mangle]
pub unsafe extern "C" fn clock_gettime(clk: libc::clockid_t, ts: *mut libc::timespec) -> libc::c_int {
    if SIM_ON.with(|s| s.get()) {
        let ns = EPOCH_NS + SIM_NOW_NS.with(|n| n.get());
        (*ts).tv_sec = (ns / 1_000_000_000) as libc::time_t;
        (*ts).tv_nsec = (ns % 1_000_000_000) as libc::c_long;
        0
    } else {
        libc::syscall(libc::SYS_clock_gettime, clk, ts) as libc::c_int
    }
}

#[no_mangle]
pub unsafe extern "C" fn getrandom(buf: *mut libc::c_void, len: libc::size_t, flags: libc::c_uint) -> libc::ssize_t {
    if SIM_ON.with(|s| s.get()) {
        let s = std::slice::from_raw_parts_mut(buf as *mut u8, len);
        for b in s.iter_mut() {
            let mut x = SIM_RNG.with(|r| r.get());
            x ^= x << 13;
            x ^= x >> 7;
            x ^= x << 17;
            SIM_RNG.with(|r| r.set(x));
            *b = (x >> 24) as u8;
        }
        len as libc::ssize_t
    } else {
        libc::syscall(libc::SYS_getrandom, buf, len, flags) as libc::ssize_t
    }
}

/// Arm the seams on the calling thread. `hash_seed` feeds `RandomState`.
pub fn enter(hash_seed: u64) {
    SIM_RNG.with(|r| r.set(hash_seed | 1));
    SIM_NOW_NS.with(|n| n.set(0));
    SIM_ON.with(|s| s.set(true));
}

pub fn leave() {
    SIM_ON.with(|s| s.set(false));
}

pub fn is_on() -> bool {
    SIM_ON.with(|s| s.get())
}

/// Mirror the simulator's virtual clock into the std clock.
pub fn set_now_ns(ns: u64) {
    SIM_NOW_NS.with(|n| n.set(ns));
}

pub fn now_ns() -> u64 {
    SIM_NOW_NS.with(|n| n.get())
}

/// Real wall clock, independent of the seam.
pub fn wall_now() -> std::time::Duration {
    let mut ts = libc::timespec { tv_sec: 0, tv_nsec: 0 };
    unsafe { libc::syscall(libc::SYS_clock_gettime, libc::CLOCK_MONOTONIC, &mut ts as *mut libc::timespec) };
    std::time::Duration::new(ts.tv_sec as u64, ts.tv_nsec as u32)
}
