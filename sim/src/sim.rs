//! The simulator core: one future (`Sim`) owning every task of every simulated node, polled by a
//! paused current-thread tokio runtime. A seeded scheduler decides which ready task runs next;
//! when nothing is runnable the future returns `Pending` and the paused runtime jumps the clock to
//! the next timer (discrete-event time).
use crate::rng::{fnv, Rng};
use crate::seams;
use std::{
    collections::BTreeMap,
    future::Future,
    panic::AssertUnwindSafe,
    pin::Pin,
    sync::{Arc, Mutex},
    task::{Context, Poll, Wake, Waker},
    time::Duration,
};

pub type Task = Pin<Box<dyn Future<Output = ()> + Send>>;

#[derive(Clone, Debug, PartialEq)]
pub enum SchedKind {
    /// wake order (closest to what tokio would do): the control
    Fifo,
    /// uniform choice among ready tasks
    Uniform,
    /// random static priorities with `depth` priority change points
    Pct { depth: u32, est_steps: u32 },
    /// uniform, but randomly chosen victim tasks are not scheduled for a window while anything
    /// else is runnable
    Starve { windows: u32, max_len: u32 },
}

impl SchedKind {
    pub fn from_json(v: &serde_json::Value) -> SchedKind {
        match v["kind"].as_str().unwrap_or("uniform") {
            "fifo" => SchedKind::Fifo,
            "pct" => SchedKind::Pct {
                depth: v["depth"].as_u64().unwrap_or(3) as u32,
                est_steps: v["est_steps"].as_u64().unwrap_or(2000) as u32,
            },
            "starve" => SchedKind::Starve {
                windows: v["windows"].as_u64().unwrap_or(3) as u32,
                max_len: v["max_len"].as_u64().unwrap_or(200) as u32,
            },
            _ => SchedKind::Uniform,
        }
    }
    /// Swarm-style choice of a scheduler for a run.
    pub fn gen(rng: &mut Rng, est_steps: u32) -> serde_json::Value {
        match rng.below(10) {
            0 => serde_json::json!({"kind": "fifo"}),
            1..=4 => serde_json::json!({"kind": "uniform"}),
            5..=6 => serde_json::json!({"kind": "pct", "depth": rng.range(1, 4), "est_steps": est_steps}),
            _ => serde_json::json!({"kind": "starve", "windows": rng.range(1, 4), "max_len": rng.range(20, 400)}),
        }
    }
}

#[derive(Default)]
struct ReadyQ {
    order: Vec<usize>,
    member: Vec<bool>,
    outer: Option<Waker>,
}

struct TaskWaker {
    id: usize,
    q: Arc<Mutex<ReadyQ>>,
}

impl Wake for TaskWaker {
    fn wake(self: Arc<Self>) {
        self.wake_by_ref()
    }
    fn wake_by_ref(self: &Arc<Self>) {
        let mut q = self.q.lock().unwrap();
        if q.member.len() <= self.id {
            q.member.resize(self.id + 1, false);
        }
        if !q.member[self.id] {
            q.member[self.id] = true;
            q.order.push(self.id);
        }
        if let Some(w) = q.outer.as_ref() {
            w.wake_by_ref();
        }
    }
}

#[derive(Clone, Debug)]
pub struct Violation {
    /// stable signature: identifies the kind of failure (used for shrinking and known findings)
    pub class: String,
    pub detail: String,
}

/// State shared between the scheduler, SimNet and the harness tasks of one run.
pub struct Shared {
    pub spawn_q: Vec<(usize, String, Task)>,
    pub kill_q: Vec<usize>,
    pub log: Vec<(u64, String)>,
    pub log_enabled: bool,
    pub trace_hash: u64,
    pub violation: Option<Violation>,
    pub stop: bool,
    pub faults_fired: BTreeMap<String, u64>,
    pub probes: BTreeMap<String, u64>,
    pub panics: Vec<String>,
    /// nodes whose tasks are not polled until the given virtual instant (ns): a stalled process
    pub frozen: BTreeMap<usize, u64>,
}

#[derive(Clone)]
pub struct Handle(pub Arc<Mutex<Shared>>);

impl Handle {
    pub fn new(log_enabled: bool) -> Handle {
        Handle(Arc::new(Mutex::new(Shared {
            spawn_q: Vec::new(),
            kill_q: Vec::new(),
            log: Vec::new(),
            log_enabled,
            trace_hash: 0xcbf29ce484222325,
            violation: None,
            stop: false,
            faults_fired: BTreeMap::new(),
            probes: BTreeMap::new(),
            panics: Vec::new(),
            frozen: BTreeMap::new(),
        })))
    }
    pub fn spawn<F: Future<Output = ()> + Send + 'static>(&self, node: usize, name: &str, f: F) {
        self.0.lock().unwrap().spawn_q.push((node, name.to_string(), Box::pin(f)));
    }
    pub fn spawn_boxed(&self, node: usize, name: &str, f: Task) {
        self.0.lock().unwrap().spawn_q.push((node, name.to_string(), f));
    }
    /// Drop every task of `node` at the next scheduling point.
    pub fn kill_node(&self, node: usize) {
        self.0.lock().unwrap().kill_q.push(node);
    }
    /// Stall `node`: none of its tasks is polled for `dur` of virtual time (sockets keep filling,
    /// its timers fire late, peers see silence). A harness task lifts the stall.
    pub fn freeze_node(&self, node: usize, dur: std::time::Duration) {
        let until = seams::now_ns() + dur.as_nanos() as u64;
        {
            let mut g = self.0.lock().unwrap();
            let e = g.frozen.entry(node).or_insert(0);
            *e = (*e).max(until);
        }
        self.fault("freeze");
        self.event(format!("node {node} frozen for {} ms", dur.as_millis()));
        let h = self.clone();
        self.spawn(0, "unfreeze", async move {
            tokio::time::sleep(dur).await;
            let now = seams::now_ns();
            let mut g = h.0.lock().unwrap();
            if g.frozen.get(&node).is_some_and(|u| *u <= now) {
                g.frozen.remove(&node);
                drop(g);
                h.event(format!("node {node} resumes"));
            }
        });
    }
    /// Record an event: goes into the trace hash always, into the readable log if enabled.
    pub fn event(&self, s: impl AsRef<str>) {
        let now = seams::now_ns();
        let mut g = self.0.lock().unwrap();
        let mut h = g.trace_hash;
        fnv(&mut h, &now.to_le_bytes());
        fnv(&mut h, s.as_ref().as_bytes());
        g.trace_hash = h;
        if g.log_enabled && g.log.len() < 20_000 {
            g.log.push((now, s.as_ref().to_string()));
        }
    }
    pub fn violation(&self, class: impl Into<String>, detail: impl Into<String>) {
        let mut g = self.0.lock().unwrap();
        if g.violation.is_none() {
            g.violation = Some(Violation { class: class.into(), detail: detail.into() });
        }
        g.stop = true;
    }
    pub fn stop(&self) {
        self.0.lock().unwrap().stop = true;
    }
    pub fn fault(&self, kind: &str) {
        *self.0.lock().unwrap().faults_fired.entry(kind.to_string()).or_insert(0) += 1;
    }
    pub fn probe(&self, name: &str) {
        *self.0.lock().unwrap().probes.entry(name.to_string()).or_insert(0) += 1;
    }
    pub fn probe_n(&self, name: &str, n: u64) {
        *self.0.lock().unwrap().probes.entry(name.to_string()).or_insert(0) += n;
    }
    pub fn has_violation(&self) -> bool {
        self.0.lock().unwrap().violation.is_some()
    }
}

/// `litep2p::executor::Executor` handing every spawned future to the simulator.
pub struct SimExecutor {
    pub node: usize,
    pub handle: Handle,
}

impl litep2p::executor::Executor for SimExecutor {
    fn run(&self, future: Pin<Box<dyn Future<Output = ()> + Send>>) {
        self.handle.spawn_boxed(self.node, "anon", future);
    }
    fn run_with_name(&self, name: &'static str, future: Pin<Box<dyn Future<Output = ()> + Send>>) {
        self.handle.spawn_boxed(self.node, name, future);
    }
}

struct Slot {
    task: Option<Task>,
    node: usize,
    #[allow(dead_code)]
    name: String,
    waker: Waker,
    prio: u64,
}

#[derive(Default, Clone, Debug)]
pub struct SimStats {
    pub polls: u64,
    pub choice_points: u64,
    pub max_ready: u64,
    pub tasks: u64,
    pub sim_ns: u64,
    pub sched_hash: u64,
    pub clock_jumps: u64,
}

pub struct Sim {
    slots: Vec<Slot>,
    q: Arc<Mutex<ReadyQ>>,
    handle: Handle,
    kind: SchedKind,
    rng: Rng,
    start: tokio::time::Instant,
    horizon: Pin<Box<tokio::time::Sleep>>,
    pub stats: SimStats,
    // pct
    change_points: Vec<u64>,
    low_prio: u64,
    // starve
    starve_starts: Vec<u64>,
    starved: Option<(usize, u64)>,
    max_polls: u64,
}

impl Sim {
    pub fn new(handle: Handle, kind: SchedKind, sched_seed: u64, horizon: Duration, max_polls: u64) -> Sim {
        let mut rng = Rng::fork(sched_seed, "sched");
        let mut change_points = Vec::new();
        let mut starve_starts = Vec::new();
        match &kind {
            SchedKind::Pct { depth, est_steps } => {
                for _ in 0..*depth {
                    change_points.push(rng.below(*est_steps as u64 + 1));
                }
            }
            SchedKind::Starve { windows, .. } => {
                for _ in 0..*windows {
                    starve_starts.push(rng.below(3000));
                }
            }
            _ => {}
        }
        Sim {
            slots: Vec::new(),
            q: Arc::new(Mutex::new(ReadyQ::default())),
            handle,
            kind,
            rng,
            start: tokio::time::Instant::now(),
            horizon: Box::pin(tokio::time::sleep(horizon)),
            stats: SimStats { sched_hash: 0xcbf29ce484222325, ..Default::default() },
            change_points,
            low_prio: u64::MAX / 2,
            starve_starts,
            starved: None,
            max_polls,
        }
    }

    fn adopt(&mut self) {
        let (spawned, killed) = {
            let mut g = self.handle.0.lock().unwrap();
            (std::mem::take(&mut g.spawn_q), std::mem::take(&mut g.kill_q))
        };
        for (node, name, task) in spawned {
            let id = self.slots.len();
            let waker = Waker::from(Arc::new(TaskWaker { id, q: self.q.clone() }));
            let prio = self.rng.next() | (1 << 63);
            self.slots.push(Slot { task: Some(task), node, name, waker, prio });
            self.stats.tasks += 1;
            let mut q = self.q.lock().unwrap();
            q.member.resize(id + 1, false);
            q.member[id] = true;
            q.order.push(id);
        }
        for node in killed {
            // dropping the futures may wake/spawn; collect first, drop outside the loop borrow
            let mut dropped = Vec::new();
            for s in self.slots.iter_mut() {
                if s.node == node {
                    if let Some(t) = s.task.take() {
                        dropped.push(t);
                    }
                }
            }
            drop(dropped);
        }
    }

    fn pick(&mut self) -> Option<usize> {
        let mut q = self.q.lock().unwrap();
        // purge dead tasks
        let slots = &self.slots;
        let mut purged: Vec<usize> = Vec::new();
        q.order.retain(|id| {
            let alive = slots[*id].task.is_some();
            if !alive {
                purged.push(*id);
            }
            alive
        });
        for id in purged {
            q.member[id] = false;
        }
        if q.order.is_empty() {
            return None;
        }
        // positions (in the ready order) of tasks that may run: all of them unless a node is stalled
        let cand: Vec<usize> = {
            let g = self.handle.0.lock().unwrap();
            if g.frozen.is_empty() {
                (0..q.order.len()).collect()
            } else {
                let now = seams::now_ns();
                (0..q.order.len()).filter(|i| !g.frozen.get(&slots[q.order[*i]].node).is_some_and(|u| *u > now)).collect()
            }
        };
        let n = cand.len();
        if n == 0 {
            return None;
        }
        self.stats.max_ready = self.stats.max_ready.max(n as u64);
        if n >= 2 {
            self.stats.choice_points += 1;
        }
        let step = self.stats.polls;
        let idx = match &self.kind {
            SchedKind::Fifo => 0,
            SchedKind::Uniform => self.rng.below(n as u64) as usize,
            SchedKind::Pct { .. } => {
                let mut best = 0;
                for i in 1..n {
                    if self.slots[q.order[cand[i]]].prio > self.slots[q.order[cand[best]]].prio {
                        best = i;
                    }
                }
                if self.change_points.contains(&step) {
                    let id = q.order[cand[best]];
                    self.low_prio -= 1;
                    self.slots[id].prio = self.low_prio;
                    // re-pick after demotion
                    best = 0;
                    for i in 1..n {
                        if self.slots[q.order[cand[i]]].prio > self.slots[q.order[cand[best]]].prio {
                            best = i;
                        }
                    }
                }
                best
            }
            SchedKind::Starve { max_len, .. } => {
                if self.starve_starts.contains(&step) && n >= 2 {
                    let victim = q.order[cand[self.rng.below(n as u64) as usize]];
                    let len = self.rng.range(5, *max_len as u64);
                    self.starved = Some((victim, step + len));
                }
                if let Some((victim, until)) = self.starved {
                    if step >= until {
                        self.starved = None;
                    } else if n >= 2 {
                        let cands: Vec<usize> = (0..n).filter(|i| q.order[cand[*i]] != victim).collect();
                        let c = cand[cands[self.rng.below(cands.len() as u64) as usize]];
                        let id = q.order.remove(c);
                        q.member[id] = false;
                        return Some(id);
                    }
                }
                self.rng.below(n as u64) as usize
            }
        };
        let id = q.order.remove(cand[idx]);
        q.member[id] = false;
        Some(id)
    }
}

impl Future for Sim {
    type Output = ();
    fn poll(mut self: Pin<&mut Self>, cx: &mut Context<'_>) -> Poll<()> {
        let this = &mut *self;
        this.q.lock().unwrap().outer = Some(cx.waker().clone());
        let finish = |this: &mut Sim| {
            let el = tokio::time::Instant::now() - this.start;
            this.stats.sim_ns = el.as_nanos() as u64;
            seams::set_now_ns(el.as_nanos() as u64);
        };
        if this.horizon.as_mut().poll(cx).is_ready() {
            finish(this);
            return Poll::Ready(());
        }
        loop {
            this.adopt();
            if this.handle.0.lock().unwrap().stop {
                finish(this);
                return Poll::Ready(());
            }
            let el = tokio::time::Instant::now() - this.start;
            seams::set_now_ns(el.as_nanos() as u64);
            let Some(id) = this.pick() else { break };
            this.stats.polls += 1;
            let mut h = this.stats.sched_hash;
            fnv(&mut h, &(id as u32).to_le_bytes());
            this.stats.sched_hash = h;
            if this.stats.polls > this.max_polls {
                this.handle.violation("harness:poll-budget", format!("more than {} task polls", this.max_polls));
                finish(this);
                return Poll::Ready(());
            }
            let waker = this.slots[id].waker.clone();
            let mut c = Context::from_waker(&waker);
            crate::node::CURRENT_NODE.with(|n| n.set(this.slots[id].node));
            let done = {
                let Some(t) = this.slots[id].task.as_mut() else { continue };
                match std::panic::catch_unwind(AssertUnwindSafe(|| t.as_mut().poll(&mut c))) {
                    Ok(p) => p.is_ready(),
                    Err(e) => {
                        let msg = if let Some(s) = e.downcast_ref::<&str>() {
                            s.to_string()
                        } else if let Some(s) = e.downcast_ref::<String>() {
                            s.clone()
                        } else {
                            "panic".to_string()
                        };
                        let name = this.slots[id].name.clone();
                        let node = this.slots[id].node;
                        this.handle.event(format!("PANIC in task {name} node {node}: {msg}"));
                        this.handle.0.lock().unwrap().panics.push(format!("task={name} node={node}: {msg}"));
                        let short: String = msg.chars().take(60).collect();
                        this.handle.violation(format!("panic:{name}:{short}"), format!("task {name} of node {node} panicked: {msg}"));
                        true
                    }
                }
            };
            if done {
                let t = this.slots[id].task.take();
                drop(t);
            }
        }
        Poll::Pending
    }
}

impl Drop for Sim {
    fn drop(&mut self) {
        // drop tasks in creation order, deterministically; dropping may enqueue spawns which are
        // discarded with the handle
        for s in self.slots.iter_mut() {
            let t = s.task.take();
            let _ = std::panic::catch_unwind(AssertUnwindSafe(|| drop(t)));
        }
    }
}

pub struct RunOutput {
    pub violation: Option<Violation>,
    pub trace_hash: u64,
    pub stats: SimStats,
    pub faults_fired: BTreeMap<String, u64>,
    pub probes: BTreeMap<String, u64>,
    pub log: Vec<(u64, String)>,
}

/// Run one simulation on a fresh OS thread: seams armed, paused runtime, seeded `select!`.
/// `setup` runs inside the runtime before the scheduler starts and spawns the initial tasks.
pub type Finalizer = Box<dyn FnOnce() + Send>;

pub fn run_sim<F>(seed: u64, sched: SchedKind, horizon: Duration, max_polls: u64, verbose: bool, setup: F) -> RunOutput
where
    F: FnOnce(Handle) -> Finalizer + Send + 'static,
{
    let th = std::thread::Builder::new()
        .stack_size(16 << 20)
        .spawn(move || {
            seams::enter(Rng::fork(seed, "hash").next());
            let mut seed_bytes = [0u8; 32];
            seed_bytes[..8].copy_from_slice(&seed.to_le_bytes());
            let rt = tokio::runtime::Builder::new_current_thread()
                .enable_time()
                .start_paused(true)
                .rng_seed(tokio::runtime::RngSeed::from_bytes(&seed_bytes))
                .build()
                .expect("runtime");
            let handle = Handle::new(verbose);
            let h2 = handle.clone();
            let stats = rt.block_on(async move {
                let mut sim = Sim::new(h2.clone(), sched, seed, horizon, max_polls);
                let r = std::panic::catch_unwind(AssertUnwindSafe(|| setup(h2.clone())));
                let fin = match r {
                    Ok(f) => Some(f),
                    Err(e) => {
                        let msg = e.downcast_ref::<&str>().map(|s| s.to_string()).or_else(|| e.downcast_ref::<String>().cloned()).unwrap_or_default();
                        h2.violation("harness:setup-panic", msg);
                        None
                    }
                };
                (&mut sim).await;
                let stats = sim.stats.clone();
                crate::node::CURRENT_NODE.with(|n| n.set(0));
                if let Some(f) = fin {
                    if !h2.has_violation() {
                        if let Err(e) = std::panic::catch_unwind(AssertUnwindSafe(f)) {
                            let msg = e.downcast_ref::<&str>().map(|s| s.to_string()).or_else(|| e.downcast_ref::<String>().cloned()).unwrap_or_default();
                            h2.violation("harness:finalizer-panic", msg);
                        }
                    }
                }
                crate::simnet::SimNet::uninstall();
                drop(sim);
                stats
            });
            drop(rt);
            seams::leave();
            let mut g = handle.0.lock().unwrap();
            g.spawn_q.clear();
            let mut trace_hash = g.trace_hash;
            fnv(&mut trace_hash, &stats.sched_hash.to_le_bytes());
            fnv(&mut trace_hash, &stats.sim_ns.to_le_bytes());
            RunOutput {
                violation: g.violation.clone(),
                trace_hash,
                stats,
                faults_fired: g.faults_fired.clone(),
                probes: g.probes.clone(),
                log: std::mem::take(&mut g.log),
            }
        })
        .expect("spawn sim thread");
    match th.join() {
        Ok(o) => o,
        Err(_) => RunOutput {
            violation: Some(Violation { class: "harness:thread-panic".into(), detail: "simulation thread panicked outside a task".into() }),
            trace_hash: 0,
            stats: SimStats::default(),
            faults_fired: BTreeMap::new(),
            probes: BTreeMap::new(),
            log: vec![],
        },
    }
}

/// Virtual time since the start of the run.
pub fn vnow() -> Duration {
    Duration::from_nanos(seams::now_ns())
}
