//! SimNet: the in-memory network behind litep2p's socket seam (`litep2p::verif::net`).
//!
//! TCP is modelled as a reliable, ordered byte stream: segments are delayed, fragmented, stalled
//! (partition) or cut (reset / half-close / vanish) but never lost, duplicated or reordered.
use crate::rng::Rng;
use crate::sim::Handle;
use futures::future::BoxFuture;
use litep2p::verif::net::{ListenerBackend, NetBackend, StreamBackend};
use std::{
    collections::{BTreeMap, BTreeSet, VecDeque},
    future::Future,
    io,
    net::{IpAddr, SocketAddr},
    pin::Pin,
    sync::{Arc, Mutex},
    task::{Context, Poll, Waker},
    time::Duration,
};
use tokio::io::{AsyncRead, AsyncWrite, ReadBuf};
use tokio::time::Instant;

#[derive(Clone, Debug)]
pub struct NetKnobs {
    pub lat_min_us: u64,
    pub lat_jitter_us: u64,
    /// maximum bytes handed out by one poll_read (fragmentation)
    pub max_chunk: usize,
    /// poll_write may accept only a prefix
    pub short_write: bool,
    /// percent of poll_read/poll_write calls answering one spurious Pending (with immediate wake)
    pub spurious_pending_pct: u64,
    /// bytes in flight per direction before poll_write returns Pending
    pub window: usize,
}

impl Default for NetKnobs {
    fn default() -> Self {
        NetKnobs { lat_min_us: 500, lat_jitter_us: 20_000, max_chunk: 4096, short_write: false, spurious_pending_pct: 0, window: 1 << 20 }
    }
}

impl NetKnobs {
    pub fn gen(rng: &mut Rng) -> serde_json::Value {
        let max_chunk = *rng.pick(&[1usize, 2, 7, 64, 1000, 4096, 65536, 1 << 20]);
        serde_json::json!({
            "lat_min_us": *rng.pick(&[50u64, 500, 5_000, 40_000]),
            "lat_jitter_us": *rng.pick(&[0u64, 100, 5_000, 30_000]),
            "max_chunk": max_chunk,
            "short_write": rng.chance(1, 3),
            "spurious_pending_pct": *rng.pick(&[0u64, 0, 5, 30]),
            "window": *rng.pick(&[4096usize, 65536, 1 << 20, 1 << 20]),
        })
    }
    pub fn from_json(v: &serde_json::Value) -> NetKnobs {
        let d = NetKnobs::default();
        NetKnobs {
            lat_min_us: v["lat_min_us"].as_u64().unwrap_or(d.lat_min_us),
            lat_jitter_us: v["lat_jitter_us"].as_u64().unwrap_or(d.lat_jitter_us),
            max_chunk: v["max_chunk"].as_u64().map(|x| x as usize).unwrap_or(d.max_chunk).max(1),
            short_write: v["short_write"].as_bool().unwrap_or(d.short_write),
            spurious_pending_pct: v["spurious_pending_pct"].as_u64().unwrap_or(d.spurious_pending_pct),
            window: v["window"].as_u64().map(|x| x as usize).unwrap_or(d.window).max(1),
        }
    }
}

/// One direction of a connection.
struct Pipe {
    segs: VecDeque<(Instant, Vec<u8>)>,
    in_flight: usize,
    /// writer closed its side: reader sees EOF after draining
    write_closed: bool,
    /// reader went away: writer gets EPIPE
    reader_gone: bool,
    rwaker: Option<Waker>,
    wwaker: Option<Waker>,
    written: u64,
    /// connection reset once `written` reaches this
    /// flip one bit of the byte at this stream offset (corruption in flight)
    flip_at: Option<u64>,
    reset_at: Option<u64>,
    /// half-close (EOF to reader, silently drop later writes) once `written` reaches this
    eof_at: Option<u64>,
}

impl Pipe {
    fn new() -> Pipe {
        Pipe { segs: VecDeque::new(), in_flight: 0, write_closed: false, reader_gone: false, rwaker: None, wwaker: None, written: 0, flip_at: None, reset_at: None, eof_at: None }
    }
    fn wake_all(&mut self) {
        if let Some(w) = self.rwaker.take() {
            w.wake();
        }
        if let Some(w) = self.wwaker.take() {
            w.wake();
        }
    }
}

pub struct Conn {
    pub id: usize,
    pub client: SocketAddr,
    pub server: SocketAddr,
    /// pipes[0]: client -> server, pipes[1]: server -> client
    pipes: [Pipe; 2],
    /// both directions dead with ECONNRESET
    reset: bool,
    /// held by a partition/stall: nothing is delivered until healed
    stalled: bool,
    /// peer silently vanished: writes are swallowed, nothing is ever delivered
    blackholed: bool,
    pub dead_since_ns: Option<u64>,
    pub created_ns: u64,
    open_ends: u8,
}

impl Conn {
    fn mark_dead(&mut self) {
        if self.dead_since_ns.is_none() {
            self.dead_since_ns = Some(crate::seams::now_ns());
        }
    }
    pub fn is_dead(&self) -> bool {
        self.dead_since_ns.is_some()
    }
    fn do_reset(&mut self) {
        self.reset = true;
        self.mark_dead();
        for p in self.pipes.iter_mut() {
            p.wake_all();
        }
    }
}

#[derive(Clone, Debug)]
pub enum ConnectFault {
    Refuse,
    Blackhole,
    Slow(u64),
}

#[derive(Clone, Debug)]
pub struct ByteFault {
    /// 0: client->server, 1: server->client
    pub dir: usize,
    pub at: u64,
    /// true: reset, false: half-close (EOF)
    pub reset: bool,
    /// corrupt the byte at `at` instead of cutting the stream there
    pub flip: bool,
}

struct LState {
    queue: VecDeque<(SimStream, SocketAddr)>,
    waker: Option<Waker>,
    closed: bool,
}

pub struct NetState {
    listeners: BTreeMap<SocketAddr, Arc<Mutex<LState>>>,
    pub conns: Vec<Arc<Mutex<Conn>>>,
    rng: Rng,
    next_port: u16,
    connects: usize,
    /// every connect call in order: (virtual ns, dialing ip, remote address)
    pub connect_log: Vec<(u64, IpAddr, SocketAddr)>,
    pub knobs: NetKnobs,
    /// fault plan: n-th connect call of the run
    pub connect_faults: BTreeMap<usize, ConnectFault>,
    /// fault plan: n-th established connection of the run
    pub byte_faults: BTreeMap<usize, ByteFault>,
    /// pairs of IPs currently partitioned
    partitions: BTreeSet<(IpAddr, IpAddr)>,
    /// hosts that are down: connects to them are refused (reset flavour) or black-holed (vanish)
    down: BTreeMap<IpAddr, bool>,
}

#[derive(Clone)]
pub struct SimNet {
    pub st: Arc<Mutex<NetState>>,
    pub handle: Handle,
}

impl SimNet {
    pub fn new(handle: Handle, seed: u64, knobs: NetKnobs) -> SimNet {
        SimNet {
            st: Arc::new(Mutex::new(NetState {
                listeners: BTreeMap::new(),
                conns: Vec::new(),
                rng: Rng::fork(seed, "net"),
                next_port: 40000,
                connects: 0,
                connect_log: Vec::new(),
                knobs,
                connect_faults: BTreeMap::new(),
                byte_faults: BTreeMap::new(),
                partitions: BTreeSet::new(),
                down: BTreeMap::new(),
            })),
            handle,
        }
    }

    pub fn install(&self) {
        litep2p::verif::net::install(Some(Arc::new(self.clone())));
    }

    pub fn uninstall() {
        litep2p::verif::net::install(None);
    }

    /// Remove the not yet fired connect-time and byte-offset faults (start of a fault-free phase).
    pub fn clear_static_faults(&self) {
        let mut st = self.st.lock().unwrap();
        st.connect_faults.clear();
        st.byte_faults.clear();
    }

    pub fn conn_count(&self) -> usize {
        self.st.lock().unwrap().conns.len()
    }

    fn live_conns(&self) -> Vec<Arc<Mutex<Conn>>> {
        let st = self.st.lock().unwrap();
        st.conns.iter().filter(|c| !c.lock().unwrap().is_dead()).cloned().collect()
    }

    /// Reset the `k`-th (mod live) live connection. Returns whether something was hit.
    pub fn reset_live(&self, k: usize) -> bool {
        let live = self.live_conns();
        if live.is_empty() {
            return false;
        }
        let c = &live[k % live.len()];
        let mut c = c.lock().unwrap();
        self.handle.event(format!("net: reset conn{}", c.id));
        self.handle.fault("reset");
        c.do_reset();
        true
    }

    /// Reset the `k`-th (mod live) live connection between two hosts. Returns whether something was hit.
    pub fn reset_between(&self, a: IpAddr, b: IpAddr, k: usize) -> bool {
        let live: Vec<_> = self.live_conns().into_iter().filter(|c| {
            let c = c.lock().unwrap();
            (c.client.ip() == a && c.server.ip() == b) || (c.client.ip() == b && c.server.ip() == a)
        }).collect();
        if live.is_empty() {
            return false;
        }
        if live.len() > 1 {
            self.handle.probe("reset-one-of-two-connections");
        }
        let c = &live[k % live.len()];
        let mut c = c.lock().unwrap();
        self.handle.event(format!("net: reset conn{} ({} live between the two hosts)", c.id, live.len()));
        self.handle.fault("reset");
        c.do_reset();
        true
    }

    /// Reset connection by id.
    pub fn reset_conn(&self, id: usize) -> bool {
        let c = self.st.lock().unwrap().conns.get(id).cloned();
        let Some(c) = c else { return false };
        let mut c = c.lock().unwrap();
        if c.is_dead() {
            return false;
        }
        self.handle.event(format!("net: reset conn{}", c.id));
        self.handle.fault("reset");
        c.do_reset();
        true
    }

    /// One direction of the `k`-th live connection gets EOF; the other stays open.
    pub fn half_close_live(&self, k: usize, dir: usize) -> bool {
        let live = self.live_conns();
        if live.is_empty() {
            return false;
        }
        let c = &live[k % live.len()];
        let mut c = c.lock().unwrap();
        self.handle.event(format!("net: half-close conn{} dir{}", c.id, dir));
        self.handle.fault("half_close");
        let p = &mut c.pipes[dir % 2];
        p.write_closed = true;
        p.wake_all();
        true
    }

    /// Hold all traffic between two hosts (both directions) until `heal`.
    pub fn partition(&self, a: IpAddr, b: IpAddr) {
        let mut st = self.st.lock().unwrap();
        st.partitions.insert((a, b));
        st.partitions.insert((b, a));
        let mut hit = false;
        for c in st.conns.iter() {
            let mut c = c.lock().unwrap();
            if !c.is_dead() && ((c.client.ip() == a && c.server.ip() == b) || (c.client.ip() == b && c.server.ip() == a)) {
                c.stalled = true;
                hit = true;
            }
        }
        self.handle.event(format!("net: partition {a} {b}"));
        if hit {
            self.handle.fault("partition");
        }
    }

    pub fn heal(&self, a: IpAddr, b: IpAddr) {
        let mut st = self.st.lock().unwrap();
        st.partitions.remove(&(a, b));
        st.partitions.remove(&(b, a));
        let lat = Duration::from_micros(st.knobs.lat_min_us);
        for c in st.conns.iter() {
            let mut c = c.lock().unwrap();
            if c.stalled && ((c.client.ip() == a && c.server.ip() == b) || (c.client.ip() == b && c.server.ip() == a)) {
                c.stalled = false;
                let now = Instant::now();
                for p in c.pipes.iter_mut() {
                    for s in p.segs.iter_mut() {
                        if s.0 < now + lat {
                            s.0 = now + lat;
                        }
                    }
                    p.wake_all();
                }
            }
        }
        self.handle.event(format!("net: heal {a} {b}"));
    }

    /// Host goes away. `vanish = false`: its connections are reset and later connects refused;
    /// `vanish = true`: its connections go silent and later connects are black-holed.
    /// The host is back (a restarted process binds its listeners afterwards). Connections of the
    /// previous incarnation stay dead: the surviving ends get an error at their next write.
    pub fn host_up(&self, ip: IpAddr) {
        self.st.lock().unwrap().down.remove(&ip);
        self.handle.event(format!("net: host {ip} up"));
        self.handle.fault("restart");
    }

    pub fn host_down(&self, ip: IpAddr, vanish: bool) {
        self.host_down_opt(ip, vanish, true)
    }

    /// `count = false`: part of the static topology (a ghost host), not an injected fault.
    pub fn host_down_opt(&self, ip: IpAddr, vanish: bool, count: bool) {
        let mut st = self.st.lock().unwrap();
        st.down.insert(ip, vanish);
        let addrs: Vec<SocketAddr> = st.listeners.keys().filter(|a| a.ip() == ip).cloned().collect();
        for a in addrs {
            if let Some(l) = st.listeners.remove(&a) {
                let mut l = l.lock().unwrap();
                l.closed = true;
                l.queue.clear();
            }
        }
        for c in st.conns.iter() {
            let mut c = c.lock().unwrap();
            if !c.is_dead() && (c.client.ip() == ip || c.server.ip() == ip) {
                if vanish {
                    c.blackholed = true;
                    c.mark_dead();
                } else {
                    c.do_reset();
                }
            }
        }
        self.handle.event(format!("net: host {ip} down vanish={vanish}"));
        if count {
            self.handle.fault(if vanish { "kill_vanish" } else { "kill_reset" });
        }
    }

    /// (id, client, server, dead_since_ns, created_ns)
    pub fn conn_table(&self) -> Vec<(usize, SocketAddr, SocketAddr, Option<u64>, u64)> {
        let st = self.st.lock().unwrap();
        st.conns
            .iter()
            .map(|c| {
                let c = c.lock().unwrap();
                (c.id, c.client, c.server, c.dead_since_ns, c.created_ns)
            })
            .collect()
    }
}

pub struct SimStream {
    conn: Arc<Mutex<Conn>>,
    /// 0 = client end, 1 = server end
    side: usize,
    rng: Rng,
    sleep: Option<Pin<Box<tokio::time::Sleep>>>,
    knobs: NetKnobs,
    handle: Handle,
    spurious_r: bool,
    spurious_w: bool,
}

impl SimStream {
    fn tx_index(&self) -> usize {
        self.side
    }
    fn rx_index(&self) -> usize {
        1 - self.side
    }
}

impl AsyncRead for SimStream {
    fn poll_read(mut self: Pin<&mut Self>, cx: &mut Context<'_>, buf: &mut ReadBuf<'_>) -> Poll<io::Result<()>> {
        let this = &mut *self;
        if this.knobs.spurious_pending_pct > 0 && !this.spurious_r && this.rng.below(100) < this.knobs.spurious_pending_pct {
            this.spurious_r = true;
            cx.waker().wake_by_ref();
            this.handle.fault("spurious_pending");
            return Poll::Pending;
        }
        this.spurious_r = false;
        let now = Instant::now();
        let rx = this.rx_index();
        let mut c = this.conn.lock().unwrap();
        if c.reset {
            return Poll::Ready(Err(io::ErrorKind::ConnectionReset.into()));
        }
        let stalled = c.stalled || c.blackholed;
        let p = &mut c.pipes[rx];
        if !stalled {
            if let Some((at, _)) = p.segs.front() {
                if *at <= now {
                    let (_, data) = p.segs.front_mut().unwrap();
                    let maxchunk = 1 + this.rng.below(this.knobs.max_chunk as u64) as usize;
                    let n = data.len().min(buf.remaining()).min(maxchunk);
                    if n < data.len() && n < buf.remaining() {
                        this.handle.fault("fragment");
                    }
                    buf.put_slice(&data[..n]);
                    data.drain(..n);
                    if data.is_empty() {
                        p.segs.pop_front();
                    }
                    p.in_flight -= n;
                    if let Some(w) = p.wwaker.take() {
                        w.wake();
                    }
                    return Poll::Ready(Ok(()));
                }
                let at = *at;
                p.rwaker = Some(cx.waker().clone());
                drop(c);
                let mut s = Box::pin(tokio::time::sleep_until(at));
                let _ = s.as_mut().poll(cx);
                this.sleep = Some(s);
                return Poll::Pending;
            }
            if p.write_closed {
                return Poll::Ready(Ok(()));
            }
        }
        p.rwaker = Some(cx.waker().clone());
        Poll::Pending
    }
}

impl AsyncWrite for SimStream {
    fn poll_write(mut self: Pin<&mut Self>, cx: &mut Context<'_>, buf: &[u8]) -> Poll<io::Result<usize>> {
        let this = &mut *self;
        if buf.is_empty() {
            return Poll::Ready(Ok(0));
        }
        if this.knobs.spurious_pending_pct > 0 && !this.spurious_w && this.rng.below(100) < this.knobs.spurious_pending_pct {
            this.spurious_w = true;
            cx.waker().wake_by_ref();
            this.handle.fault("spurious_pending");
            return Poll::Pending;
        }
        this.spurious_w = false;
        let tx = this.tx_index();
        let mut c = this.conn.lock().unwrap();
        if c.reset {
            return Poll::Ready(Err(io::ErrorKind::ConnectionReset.into()));
        }
        let blackholed = c.blackholed;
        let id = c.id;
        let p = &mut c.pipes[tx];
        if p.write_closed || p.reader_gone {
            return Poll::Ready(Err(io::ErrorKind::BrokenPipe.into()));
        }
        if p.in_flight >= this.knobs.window {
            p.wwaker = Some(cx.waker().clone());
            this.handle.fault("backpressure");
            return Poll::Pending;
        }
        let mut n = buf.len().min(this.knobs.window - p.in_flight);
        if this.knobs.short_write && n > 1 && this.rng.chance(1, 2) {
            n = 1 + this.rng.below(n as u64) as usize;
            this.handle.fault("short_write");
        }
        // byte-offset faults
        let mut cut: Option<bool> = None;
        if let Some(at) = p.reset_at {
            if p.written + n as u64 >= at {
                n = (at - p.written) as usize;
                cut = Some(true);
            }
        }
        if cut.is_none() {
            if let Some(at) = p.eof_at {
                if p.written + n as u64 >= at {
                    n = (at - p.written) as usize;
                    cut = Some(false);
                }
            }
        }
        if n > 0 && !blackholed {
            let lat = Duration::from_micros(this.knobs.lat_min_us + this.rng.below(this.knobs.lat_jitter_us + 1));
            let mut at = Instant::now() + lat;
            if let Some((last, _)) = p.segs.back() {
                if *last > at {
                    at = *last;
                }
            }
            let mut data = buf[..n].to_vec();
            if let Some(f) = p.flip_at {
                if f >= p.written && f < p.written + n as u64 {
                    data[(f - p.written) as usize] ^= 0x10;
                    p.flip_at = None;
                    this.handle.fault("byte_flip");
                    this.handle.event(format!("net: byte at offset {f} of conn{id} corrupted in flight"));
                }
            }
            p.segs.push_back((at, data));
            p.in_flight += n;
            if let Some(w) = p.rwaker.take() {
                w.wake();
            }
        }
        p.written += n as u64;
        match cut {
            Some(true) => {
                p.reset_at = None;
                this.handle.event(format!("net: byte-offset reset conn{id} dir{tx} at {}", p.written));
                this.handle.fault("reset_at");
                c.do_reset();
                if n == 0 {
                    return Poll::Ready(Err(io::ErrorKind::ConnectionReset.into()));
                }
            }
            Some(false) => {
                p.eof_at = None;
                p.write_closed = true;
                p.wake_all();
                this.handle.event(format!("net: byte-offset half-close conn{id} dir{tx} at {}", p.written));
                this.handle.fault("half_close_at");
                if n == 0 {
                    return Poll::Ready(Err(io::ErrorKind::BrokenPipe.into()));
                }
            }
            None => {}
        }
        Poll::Ready(Ok(n))
    }
    fn poll_flush(self: Pin<&mut Self>, _: &mut Context<'_>) -> Poll<io::Result<()>> {
        Poll::Ready(Ok(()))
    }
    fn poll_shutdown(self: Pin<&mut Self>, _: &mut Context<'_>) -> Poll<io::Result<()>> {
        let tx = self.tx_index();
        let mut c = self.conn.lock().unwrap();
        let p = &mut c.pipes[tx];
        p.write_closed = true;
        p.wake_all();
        Poll::Ready(Ok(()))
    }
}

impl Drop for SimStream {
    fn drop(&mut self) {
        let tx = self.tx_index();
        let rx = self.rx_index();
        let mut c = self.conn.lock().unwrap();
        c.pipes[tx].write_closed = true;
        c.pipes[tx].wake_all();
        c.pipes[rx].reader_gone = true;
        c.pipes[rx].wake_all();
        c.open_ends = c.open_ends.saturating_sub(1);
        c.mark_dead();
    }
}

struct SimListener {
    addr: SocketAddr,
    st: Arc<Mutex<LState>>,
    net: Arc<Mutex<NetState>>,
}

impl ListenerBackend for SimListener {
    fn local_addr(&self) -> SocketAddr {
        self.addr
    }
    fn poll_accept(&mut self, cx: &mut Context<'_>) -> Poll<io::Result<(Box<dyn StreamBackend>, SocketAddr)>> {
        let mut st = self.st.lock().unwrap();
        if let Some((s, a)) = st.queue.pop_front() {
            return Poll::Ready(Ok((Box::new(s), a)));
        }
        st.waker = Some(cx.waker().clone());
        Poll::Pending
    }
}

impl Drop for SimListener {
    fn drop(&mut self) {
        let mut st = self.st.lock().unwrap();
        st.closed = true;
        st.queue.clear();
        drop(st);
        if let Ok(mut n) = self.net.try_lock() {
            if let Some(l) = n.listeners.get(&self.addr) {
                if Arc::ptr_eq(l, &self.st) {
                    n.listeners.remove(&self.addr);
                }
            }
        }
    }
}

impl NetBackend for SimNet {
    fn bind(&self, addr: SocketAddr) -> io::Result<Box<dyn ListenerBackend>> {
        let mut net = self.st.lock().unwrap();
        if net.listeners.contains_key(&addr) {
            return Err(io::ErrorKind::AddrInUse.into());
        }
        let st = Arc::new(Mutex::new(LState { queue: VecDeque::new(), waker: None, closed: false }));
        net.listeners.insert(addr, st.clone());
        Ok(Box::new(SimListener { addr, st, net: self.st.clone() }))
    }

    fn connect(&self, local: Option<SocketAddr>, remote: SocketAddr) -> BoxFuture<'static, io::Result<Box<dyn StreamBackend>>> {
        let net = self.st.clone();
        let handle = self.handle.clone();
        // the dialing host is identified by the node whose task is being polled
        let from_ip = crate::node::current_node_ip();
        let (nth, fault, mut rng, knobs, port) = {
            let mut st = net.lock().unwrap();
            let nth = st.connects;
            st.connects += 1;
            st.connect_log.push((crate::seams::now_ns(), from_ip, remote));
            let fault = st.connect_faults.get(&nth).cloned();
            let rng = Rng::new(st.rng.next());
            st.next_port += 1;
            (nth, fault, rng, st.knobs.clone(), st.next_port)
        };
        Box::pin(async move {
            // the source port is always unique (4-tuple collisions of SO_REUSEPORT are not modelled)
            let _ = local;
            let from: SocketAddr = SocketAddr::new(from_ip, port);
            handle.event(format!("net: connect#{nth} {from} -> {remote} fault={fault:?}"));
            let rtt = Duration::from_micros(2 * (knobs.lat_min_us + rng.below(knobs.lat_jitter_us + 1)));
            match fault {
                Some(ConnectFault::Refuse) => {
                    tokio::time::sleep(rtt).await;
                    handle.fault("refuse");
                    return Err(io::ErrorKind::ConnectionRefused.into());
                }
                Some(ConnectFault::Blackhole) => {
                    handle.fault("blackhole_connect");
                    futures::future::pending::<()>().await;
                    unreachable!()
                }
                Some(ConnectFault::Slow(ms)) => {
                    handle.fault("slow_connect");
                    tokio::time::sleep(Duration::from_millis(ms)).await;
                }
                None => {
                    tokio::time::sleep(rtt).await;
                }
            }
            enum Pre {
                Refused,
                Hang,
                Go(Arc<Mutex<LState>>, SimStream, SimStream, usize),
            }
            let pre = {
                let mut st = net.lock().unwrap();
                if let Some(vanish) = st.down.get(&remote.ip()).cloned() {
                    if vanish {
                        Pre::Hang
                    } else {
                        Pre::Refused
                    }
                } else if st.partitions.contains(&(from.ip(), remote.ip())) {
                    // SYNs are dropped while partitioned: the dialer's own time-out decides
                    Pre::Hang
                } else if let Some(l) = st.listeners.get(&remote).cloned() {
                    let id = st.conns.len();
                    let mut conn = Conn { id, client: from, server: remote, pipes: [Pipe::new(), Pipe::new()], reset: false, stalled: false, blackholed: false, dead_since_ns: None, created_ns: crate::seams::now_ns(), open_ends: 2 };
                    if let Some(bf) = st.byte_faults.get(&id).cloned() {
                        let p = &mut conn.pipes[bf.dir % 2];
                        if bf.flip {
                            p.flip_at = Some(bf.at);
                        } else if bf.reset {
                            p.reset_at = Some(bf.at);
                        } else {
                            p.eof_at = Some(bf.at);
                        }
                    }
                    let conn = Arc::new(Mutex::new(conn));
                    st.conns.push(conn.clone());
                    let c = SimStream { conn: conn.clone(), side: 0, rng: Rng::new(rng.next()), sleep: None, knobs: knobs.clone(), handle: handle.clone(), spurious_r: false, spurious_w: false };
                    let s = SimStream { conn, side: 1, rng: Rng::new(rng.next()), sleep: None, knobs, handle: handle.clone(), spurious_r: false, spurious_w: false };
                    Pre::Go(l, c, s, id)
                } else {
                    Pre::Refused
                }
            };
            let (l, c, s, id) = match pre {
                Pre::Refused => return Err(io::ErrorKind::ConnectionRefused.into()),
                Pre::Hang => {
                    futures::future::pending::<()>().await;
                    unreachable!()
                }
                Pre::Go(l, c, s, id) => (l, c, s, id),
            };
            let mut ls = l.lock().unwrap();
            if ls.closed {
                return Err(io::ErrorKind::ConnectionRefused.into());
            }
            ls.queue.push_back((s, from));
            if let Some(w) = ls.waker.take() {
                w.wake();
            }
            handle.event(format!("net: conn{id} open {from} -> {remote}"));
            if (31000..32000).contains(&remote.port()) {
                handle.probe("websocket-connection-opened");
            }
            Ok(Box::new(c) as Box<dyn StreamBackend>)
        })
    }
}

/// Keep `Future` in scope for the boxed sleep poll above.
#[allow(dead_code)]
fn _assert_future<F: Future>(_: &F) {}
