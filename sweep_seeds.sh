#!/bin/bash
# usage: sweep_seeds.sh <first> <count> [tier]   every check under <count> batch seeds starting at <first>;
# evidence/replays go to a scratch VERIF_DIR so the committed evidence is untouched. Prints one
# line per (seed, property) that did not exit 0 and a summary; exit 1 if any.
first=${1:-100}; count=${2:-10}; tier=${3:-quick}
dir=${SWEEP_DIR:-/var/tmp/vsim-sweep}
mkdir -p $dir; cp /verif/KNOWN_FINDINGS.jsonl $dir/
cd /verif
# build once, then run a private copy of the binary: later rebuilds do not disturb the sweep
./check build > /dev/null 2>&1 || { echo "build failed"; exit 2; }
cp /verif/sim/target/release/vsim $dir/vsim
cp /verif/sim/target-dbg/release/vsim $dir/vsim-dbg
mkdir -p $dir/dbg; cp /verif/KNOWN_FINDINGS.jsonl $dir/dbg/
DBG_PROPS=" C05 C06 C07 C08 C09 C11 C12 C13 C16 "
bad=0; total=0
stride=${SWEEP_STRIDE:-100000}
for ((k=0; k<count; k++)); do sd=$((first + k*stride))
  for p in C01 C02 C03 C04 C05 C06 C07 C08 C09 C10 C11 C12 C13 C14 C15 C16 C17; do
    out=$(VERIF_SEED=$sd VERIF_DIR=$dir $dir/vsim check --property $p --tier $tier --jobs ${VERIF_JOBS:-16} 2>&1); rc=$?
    total=$((total+1))
    if [ $rc -ne 0 ]; then bad=$((bad+1)); echo "seed=$sd $p rc=$rc $(echo "$out" | grep -E "VIOLATION|class:|HARNESS" | head -4 | tr '\n' ' ' | cut -c1-400)"; fi
    if [ $rc -eq 0 ] && [[ "$DBG_PROPS" == *" $p "* ]]; then
      out=$(VERIF_SEED=$sd VERIF_DIR=$dir/dbg $dir/vsim-dbg check --property $p --tier $tier --jobs ${VERIF_JOBS:-16} 2>&1); rc=$?
      total=$((total+1))
      if [ $rc -ne 0 ]; then bad=$((bad+1)); echo "seed=$sd $p (debug assertions) rc=$rc $(echo "$out" | grep -E "VIOLATION|class:|HARNESS" | head -4 | tr '\n' ' ' | cut -c1-400)"; fi
    fi
  done
done
echo "sweep: $total check runs, $bad not clean (batch seeds $first + k*$stride, k < $count; tier $tier)"
[ $bad -eq 0 ]
