#!/bin/bash
# usage: thorough_private.sh PROP...   thorough tier of the given checks with a private copy of the two
# vsim binaries (built from the current tree first) and a scratch VERIF_DIR, so that later edits and
# rebuilds do not disturb the run; appends one line per check to thorough_results.txt
dir=${THOROUGH_DIR:-/var/tmp/vsim-thorough}
mkdir -p $dir/dbg; cp /verif/KNOWN_FINDINGS.jsonl $dir/; cp /verif/KNOWN_FINDINGS.jsonl $dir/dbg/
cd /verif
./check build > /dev/null 2>&1 || { echo "build failed"; exit 2; }
cp /verif/sim/target/release/vsim $dir/vsim; cp /verif/sim/target-dbg/release/vsim $dir/vsim-dbg
out=/verif/thorough_results.txt
echo "# thorough tier (private binaries), $(date -u +%FT%TZ), repo $(git -C /repo rev-parse --short HEAD), verif $(git -C /verif rev-parse --short HEAD)" >> $out
DBG_PROPS=" C05 C06 C07 C08 C09 C11 C12 C13 C16 "
for p in "$@"; do
  log=$(VERIF_DIR=$dir $dir/vsim check --property $p --tier thorough --jobs ${VERIF_JOBS:-16} 2>&1); rc=$?
  if [ $rc -eq 0 ] && [[ "$DBG_PROPS" == *" $p "* ]]; then
    log2=$(VERIF_DIR=$dir/dbg VSIM_FLAVOUR=debug-assertions $dir/vsim-dbg check --property $p --tier thorough --jobs ${VERIF_JOBS:-16} --wall 240 2>&1); rc=$?
    log="$log
$log2"
  fi
  echo "$p rc=$rc $(echo "$log" | grep -E '^vsim: property' | sed 's/vsim: property=[A-Z0-9]* //' | tr '\n' '|' | cut -c1-330) $(echo "$log" | grep -E 'VIOLATION|HARNESS|class:' | head -3 | tr '\n' ' ' | cut -c1-300)" | tee -a $out
done
